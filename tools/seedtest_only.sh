#!/bin/sh
# tools/seedtest_only.sh <patch.diff> <PROP> <profile[:variant] prefix> [runs]: like seedtest.sh, restricted to some profiles of a check
set -e
patch=$(readlink -f "$1"); prop=$2; only=$3; runs=${4:-0}
wt=/tmp/seedtest-$$
git -C /repo worktree add -q --detach "$wt" HEAD
trap 'git -C /repo worktree remove --force "$wt" >/dev/null 2>&1 || true' EXIT
git -C "$wt" apply "$patch"
cd "$(dirname "$0")/.."
VERIF_REPO="$wt" VERIF_REPLAY_DIR="$wt/.replays" VERIF_MAX_MINIMISED=0 ./check "$prop" --only "$only" --runs "$runs" 2>&1 | grep -E "signature:|^check " | cut -c1-400
