#!/usr/bin/env python3
"""Diagnostic: do runs executed in a shared process (sim.batch, the search accelerator) produce the same event-log hash as
the same seed in a process of its own?  Differences are legal (warm sync.Pools, id counters) - violations are always
re-confirmed alone - but they should be rare; this prints how many there are per profile."""
import json, os, subprocess, sys, tempfile, shutil, concurrent.futures as cf
VERIF = os.path.dirname(os.path.dirname(os.path.abspath(__file__)))
sys.path.insert(0, os.path.join(VERIF, "tools"))
from profiles_cfg import PROPS
binp = os.path.realpath(os.path.join(VERIF, "build", "simrun.test"))
n = int(sys.argv[1]) if len(sys.argv) > 1 else 12
profs = []
for p, cfg in sorted(PROPS.items()):
    if cfg.get("engine") == "component":
        continue
    for tier in ("quick", "thorough"):
        for spec in cfg[tier]["profiles"]:
            pv = (spec["profile"], spec.get("variant", ""))
            if pv not in profs and pv[0] != "C18":
                profs.append(pv)
tmp = tempfile.mkdtemp(prefix="beq-", dir=os.path.join(VERIF, "build"))
env = dict(os.environ, GOMAXPROCS="1")

def one(pv):
    prof, var = pv
    seeds = [9000000 + 131 * i for i in range(n)]
    wd = os.path.join(tmp, prof + "-" + var); os.makedirs(wd)
    open(wd + "/jobs", "w").write("".join("%s\t%s\t%d\n" % (prof, var, s) for s in seeds))
    subprocess.run([binp, "-test.run", "^TestSim$", "-test.timeout", "0", "-sim.batch", wd + "/jobs", "-sim.out", wd + "/out"], cwd=wd, env=dict(env, TMPDIR=wd), capture_output=True)
    got = {}
    if os.path.exists(wd + "/out"):
        for l in open(wd + "/out"):
            r = json.loads(l); got[r["seed"]] = r["log_hash"]
    diff = missing = 0
    for s in seeds:
        a = [binp, "-test.run", "^TestSim$", "-test.timeout", "0", "-sim.seed", str(s), "-sim.profile", prof, "-sim.out", wd + "/iso"]
        if var: a += ["-sim.variant", var]
        subprocess.run(a, cwd=wd, env=dict(env, TMPDIR=wd), capture_output=True)
        h = json.load(open(wd + "/iso"))["log_hash"] if os.path.exists(wd + "/iso") else None
        if os.path.exists(wd + "/iso"): os.remove(wd + "/iso")
        if s not in got: missing += 1
        elif got[s] != h: diff += 1
    return pv, diff, missing
tot = 0
with cf.ThreadPoolExecutor(8) as ex:
    for pv, diff, missing in ex.map(one, profs):
        tot += diff
        print("%-10s %-12s %d/%d differ, %d without a shared-process result" % (pv[0], pv[1], diff, n, missing))
shutil.rmtree(tmp, ignore_errors=True)
print("total differing:", tot)
