#!/usr/bin/env python3
"""Generate /verif/build/{overlay,xsys}: the seams the simulation needs outside /repo.

 * build/xsys      : copy of golang.org/x/sys (exact version rcproxy requires) from the module cache with one
                     inserted first statement in each syscall wrapper rcproxy uses, consulting unix.VerifSim.
 * build/overlay   : patched copies of six files of the pinned go1.26.8 GOROOT + overlay.json (absolute paths)
                     for `go build -overlay`.  GOROOT itself is never touched.

Every textual patch is assertion-checked: if the anchor text is not found exactly once the script fails (exit 2).
Idempotent: regenerates only when inputs or this script changed (stamp file).
"""
import hashlib, json, os, re, shutil, subprocess, sys

VERIF = os.path.dirname(os.path.dirname(os.path.abspath(__file__)))
BUILD = os.path.join(VERIF, "build")
GOROOT = "/opt/veriftools/go1.26.8"
XSYS_VER = "golang.org/x/sys@v0.0.0-20220908164124-27713097b956"


def die(msg):
    sys.stderr.write("gen_build: " + msg + "\n")
    sys.exit(2)


def modcache():
    env = dict(os.environ, GOTOOLCHAIN="local", GOFLAGS="-mod=mod", GOPROXY="off")
    out = subprocess.run([GOROOT + "/bin/go", "env", "GOMODCACHE"], env=env, capture_output=True, text=True)
    p = out.stdout.strip()
    if not p:
        die("cannot find GOMODCACHE: " + out.stderr)
    return p


def replace_once(src, anchor, new, what):
    if src.count(anchor) != 1:
        die("anchor for %s found %d times" % (what, src.count(anchor)))
    return src.replace(anchor, new)


def gen_xsys():
    src = os.path.join(modcache(), XSYS_VER)
    if not os.path.isdir(src):
        die("module cache lacks " + XSYS_VER)
    dst = os.path.join(BUILD, "xsys")
    if os.path.exists(dst):
        subprocess.run(["chmod", "-R", "u+w", dst])
        shutil.rmtree(dst)
    os.makedirs(dst)
    for sub in ("unix", "internal", "cpu", "execabs"):
        shutil.copytree(os.path.join(src, sub), os.path.join(dst, sub))
    for f in ("go.mod", "LICENSE"):
        shutil.copy(os.path.join(src, f), os.path.join(dst, f))
    subprocess.run(["chmod", "-R", "u+w", dst])
    root = dst + "/unix/"
    targets = {
        "syscall_linux.go": {
            "Accept": "if h := VerifSim; h != nil && h.IsSim(fd) { return h.Accept(fd) }",
            "Writev": "if h := VerifSim; h != nil && h.IsSim(fd) { return h.Writev(fd, iovs) }",
        },
        "syscall_unix.go": {
            "Read": "if h := VerifSim; h != nil && h.IsSim(fd) { return h.Read(fd, p) }",
            "Write": "if h := VerifSim; h != nil && h.IsSim(fd) { return h.Write(fd, p) }",
            "Bind": "if h := VerifSim; h != nil && h.IsSim(fd) { return h.Bind(fd, sa) }",
            "Connect": "if h := VerifSim; h != nil && h.IsSim(fd) { return h.Connect(fd, sa) }",
            "SetsockoptInt": "if h := VerifSim; h != nil && h.IsSim(fd) { return h.SetsockoptInt(fd, level, opt, value) }",
            "Socket": "if h := VerifSim; h != nil && h.Active() { return h.Socket(domain, typ, proto) }",
            "SetNonblock": "if h := VerifSim; h != nil && h.IsSim(fd) { return h.SetNonblock(fd, nonblocking) }",
        },
        "zsyscall_linux.go": {
            "Close": "if h := VerifSim; h != nil && h.IsSim(fd) { return h.Close(fd) }",
            "Dup": "if h := VerifSim; h != nil && h.Active() { if nfd, e, ok := h.Dup(oldfd); ok { return nfd, e } }",
            "EpollCreate1": "if h := VerifSim; h != nil && h.Active() { return h.EpollCreate1(flag) }",
            "EpollCtl": "if h := VerifSim; h != nil && h.IsSim(epfd) { return h.EpollCtl(epfd, op, fd, event) }",
            "Eventfd": "if h := VerifSim; h != nil && h.Active() { return h.Eventfd(initval, flags) }",
        },
        "zsyscall_linux_amd64.go": {
            "EpollWait": "if h := VerifSim; h != nil && h.IsSim(epfd) { return h.EpollWait(epfd, events, msec) }",
            "Listen": "if h := VerifSim; h != nil && h.IsSim(s) { return h.Listen(s, n) }",
        },
    }
    for f, fs in targets.items():
        s = open(root + f).read()
        for name, hook in fs.items():
            pat = re.compile(r"^(func %s\([^\n]*\{\n)" % name, re.M)
            ms = pat.findall(s)
            if len(ms) != 1:
                die("x/sys %s: func %s found %d times" % (f, name, len(ms)))
            m = pat.search(s)
            s = s[:m.end()] + "\t" + hook + "\n" + s[m.end():]
        open(root + f, "w").write(s)
    open(root + "verif_shim.go", "w").write('''package unix

// VerifSimKernel is implemented by the simulated kernel of the verification harness.
type VerifSimKernel interface {
	Active() bool
	IsSim(fd int) bool
	Socket(domain, typ, proto int) (int, error)
	SetsockoptInt(fd, level, opt, value int) error
	Bind(fd int, sa Sockaddr) error
	Connect(fd int, sa Sockaddr) error
	Listen(fd, n int) error
	Accept(fd int) (int, Sockaddr, error)
	SetNonblock(fd int, nb bool) error
	Dup(fd int) (int, error, bool)
	Read(fd int, p []byte) (int, error)
	Write(fd int, p []byte) (int, error)
	Writev(fd int, iovs [][]byte) (int, error)
	Close(fd int) error
	EpollCreate1(flag int) (int, error)
	EpollCtl(epfd, op, fd int, ev *EpollEvent) error
	EpollWait(epfd int, evs []EpollEvent, msec int) (int, error)
	Eventfd(initval uint, flags int) (int, error)
}

// VerifSim is nil unless a simulation harness installs a kernel.
var VerifSim VerifSimKernel
''')


def gen_overlay():
    od = os.path.join(BUILD, "overlay")
    os.makedirs(od, exist_ok=True)
    rep = {}

    # runtime/rand.go : rand() and bootstrapRand() return harness-controlled values
    p = GOROOT + "/src/runtime/rand.go"
    s = open(p).read()
    s = replace_once(s, "func bootstrapRand() uint64 {\n\tlock(&globalRand.lock)\n",
                     "func bootstrapRand() uint64 {\n\tlock(&globalRand.lock)\n"
                     "\tif verifRandOn {\n\t\tverifBoot += 0x9e3779b97f4a7c15\n\t\tx := verifBoot\n\t\tx ^= x >> 31\n"
                     "\t\tx *= 0xbf58476d1ce4e5b9\n\t\tx ^= x >> 29\n\t\tunlock(&globalRand.lock)\n\t\treturn x\n\t}\n",
                     "bootstrapRand")
    s = replace_once(s, "func rand() uint64 {\n",
                     "func rand() uint64 {\n\tif verifRandOn {\n\t\treturn verifRandVal\n\t}\n", "rand")
    s += '''
// verification overlay: when on, rand() (map hash seeds, iteration offsets, alg keys) is the fixed value.
var verifRandOn = true
var verifRandVal uint64 = 0x9e3779b97f4a7c15

// VerifSetRand sets the value returned by the runtime's rand() (on=false restores real randomness).
func VerifSetRand(on bool, v uint64) {
	verifRandVal = v
	verifRandOn = on
}

var verifBoot uint64
'''
    open(od + "/runtime_rand.go", "w").write(s)
    rep[p] = od + "/runtime_rand.go"

    # runtime/time.go : each time.Now() inside a bubble costs verifClockTick fake ns
    p = GOROOT + "/src/runtime/time.go"
    s = open(p).read()
    anchor = "func time_runtimeNow() (sec int64, nsec int32, mono int64) {\n\tif bubble := getg().bubble; bubble != nil {\n"
    s = replace_once(s, anchor, anchor +
                     "\t\tif verifClockTick > 0 && getg().goid == verifTickGoid {\n\t\t\tlock(&bubble.mu)\n\t\t\tbubble.now += verifClockTick\n"
                     "\t\t\tunlock(&bubble.mu)\n\t\t}\n", "time_runtimeNow")
    s += '''
// verifClockTick is the number of fake nanoseconds each time.Now() inside a synctest bubble costs.
var verifClockTick int64 = 0

// VerifSetClockTick sets verifClockTick.
func VerifSetClockTick(ns int64) { verifClockTick = ns }

// verifTickGoid: only this goroutine's clock readings cost a tick (the proxy's event loop), so that the
// fake clock does not depend on how the scheduler interleaves helper goroutines.
var verifTickGoid uint64

// VerifTickThisG makes the calling goroutine the one whose time.Now() readings advance the bubble clock.
func VerifTickThisG() { verifTickGoid = getg().goid }
'''
    open(od + "/runtime_time.go", "w").write(s)
    rep[p] = od + "/runtime_time.go"

    # runtime/synctest.go : an overdue timer fires now instead of throwing
    p = GOROOT + "/src/runtime/synctest.go"
    s = open(p).read()
    s = replace_once(s, '\t\t\tthrow("time went backwards")\n',
                     '\t\t\tif verifClockTick == 0 {\n\t\t\t\tthrow("time went backwards")\n\t\t\t}\n'
                     '\t\t\tnext = bubble.now // verification overlay: an overdue timer fires at the current instant\n',
                     "synctest time went backwards")
    open(od + "/runtime_synctest.go", "w").write(s)
    rep[p] = od + "/runtime_synctest.go"

    # runtime/proc.go : LockOSThread/UnlockOSThread become no-ops on request. rcproxy's reactor pins its goroutine to an OS
    # thread (a performance measure without semantic effect); in simulation every poll grant is a hand-over between the driver
    # goroutine and the event loop, which with a pinned thread costs two OS-level thread switches (futex wake + sleep, spinning
    # Ms) and made parallel runs scale badly (26 runs/s on 16 cores instead of >150).
    p = GOROOT + "/src/runtime/proc.go"
    s = open(p).read()
    s = replace_once(s, "func LockOSThread() {\n", "func LockOSThread() {\n\tif verifNoLockOSThread {\n\t\treturn\n\t}\n", "LockOSThread")
    s = replace_once(s, "func UnlockOSThread() {\n", "func UnlockOSThread() {\n\tif verifNoLockOSThread {\n\t\treturn\n\t}\n", "UnlockOSThread")
    s += '''
// verification overlay: when set, LockOSThread / UnlockOSThread do nothing.
var verifNoLockOSThread bool

// VerifSetNoLockOSThread switches the no-op behaviour of LockOSThread / UnlockOSThread.
func VerifSetNoLockOSThread(on bool) { verifNoLockOSThread = on }
'''
    open(od + "/runtime_proc.go", "w").write(s)
    rep[p] = od + "/runtime_proc.go"

    # net/dial.go : dial hooks
    p = GOROOT + "/src/net/dial.go"
    s = open(p).read()
    a1 = "func DialTimeout(network, address string, timeout time.Duration) (Conn, error) {\n"
    s = replace_once(s, a1, a1 + "\tif h := VerifDialTimeoutHook; h != nil {\n\t\tif c, err, ok := h(network, address, timeout); ok {\n"
                     "\t\t\treturn c, err\n\t\t}\n\t}\n", "DialTimeout")
    a2 = "func (d *Dialer) DialContext(ctx context.Context, network, address string) (Conn, error) {\n"
    s = replace_once(s, a2, a2 + "\tif h := VerifDialContextHook; h != nil {\n\t\tif c, err, ok := h(ctx, network, address, d.Timeout); ok {\n"
                     "\t\t\treturn c, err\n\t\t}\n\t}\n", "DialContext")
    open(od + "/net_dial.go", "w").write(s)
    rep[p] = od + "/net_dial.go"

    open(od + "/net_verif.go", "w").write('''package net

import (
	"context"
	"syscall"
	"time"
)

// Verification overlay hooks (nil in normal operation).
var VerifDialTimeoutHook func(network, address string, timeout time.Duration) (Conn, error, bool)
var VerifDialContextHook func(ctx context.Context, network, address string, timeout time.Duration) (Conn, error, bool)

// VerifNewTCPConn wraps an already-open descriptor in a *TCPConn with the given addresses.
// The descriptor is not registered with the runtime poller; only Control, Close and the
// address accessors are meaningful.
func VerifNewTCPConn(sysfd int, laddr, raddr *TCPAddr) *TCPConn {
	fd, _ := newFD(sysfd, syscall.AF_INET, syscall.SOCK_STREAM, "tcp")
	fd.setAddr(laddr, raddr)
	return &TCPConn{conn{fd}}
}
''')
    rep[GOROOT + "/src/net/verif_hook.go"] = od + "/net_verif.go"
    json.dump({"Replace": rep}, open(od + "/overlay.json", "w"), indent=1)


def main():
    os.makedirs(BUILD, exist_ok=True)
    h = hashlib.sha256(open(os.path.abspath(__file__), "rb").read())
    for f in ("runtime/rand.go", "runtime/time.go", "runtime/synctest.go", "runtime/proc.go", "net/dial.go"):
        h.update(open(GOROOT + "/src/" + f, "rb").read())
    h.update(BUILD.encode())
    stamp = os.path.join(BUILD, "gen.stamp")
    want = h.hexdigest()
    if os.path.exists(stamp) and open(stamp).read() == want and os.path.isdir(BUILD + "/xsys/unix") \
            and os.path.exists(BUILD + "/overlay/overlay.json"):
        return
    gen_xsys()
    gen_overlay()
    open(stamp, "w").write(want)


if __name__ == "__main__":
    main()
