#!/bin/sh
# tools/adopt_seed.sh <agent-worktree> <seed-dir-name> <demo file relative to worktree> <go test args...>
# Copies a sub-agent's seeded change (seed_patch.diff, demo, SEED_NOTES.md) into /verif/seeded/<name>/ and confirms it
# in a fresh scratch worktree with tools/verify_seed.sh. The agent's worktree is left alone (remove it afterwards).
set -e
wt=$1; name=$2; demo=$3; shift 3
cd "$(dirname "$0")/.."
d=seeded/$name
mkdir -p "$d"
cp "$wt/seed_patch.diff" "$d/patch.diff"
cp "$wt/$demo" "$d/$(basename "$demo").txt"
[ -f "$wt/SEED_NOTES.md" ] && cp "$wt/SEED_NOTES.md" "$d/NOTES.md"
sh tools/verify_seed.sh "$name" "$d/patch.diff" "$d/$(basename "$demo").txt" "$(dirname "$demo")" "$@" 2>&1 | tee "$d/verify.log"
