"""Per-property batch configuration for ./check (which profiles, how many runs, reach requirements)."""

def P(profile, runs, variant="", **kw):
    d = dict(profile=profile, runs=runs, variant=variant)
    d.update(kw)
    return d

PROPS = {
    "C01": dict(
        level="exploration",
        rule="seeded random plans (1-4 clients, pipelines of 1-80 mixed forwarded/split/local/rejected requests) x seeded schedules "
             "(per-backend reply release order, segmentation, poll ready-list order); a run is non-trivial when some client mixes "
             "locally answered and forwarded requests and at least one poll returned >=2 ready descriptors; distinct = distinct hash of the "
             "proxy-visible event sequence (ordered ready lists + syscall result classes)",
        quick=dict(budget_s=70, profiles=[P("C01", 500)]),
        thorough=dict(budget_s=1500, profiles=[P("C01", 20000), P("C01", 6000, "deep")]),
        reach=["PollsMulti", "ShortReads", "ShortWrites"],
    ),
    "C09": dict(
        level="exploration",
        rule="open-loop clients (one request every d ms, d below/equal/above the backend latency L) under a strictly fair, fault-free "
             "schedule; oracle: reply i reaches the client within 3 rounds / 1 fake second of the round in which the proxy had been handed "
             "the backend replies of requests 0..i; non-trivial = at least one request completed while a later one was already outstanding; "
             "distinct = distinct proxy-visible event-sequence hash",
        quick=dict(budget_s=70, profiles=[P("C09", 200)]),
        thorough=dict(budget_s=900, profiles=[P("C09", 6000)]),
        reach=["c09_completed_while_later_outstanding"],
    ),
    "C16": dict(
        level="fault_enumeration",
        rule="request timeout T in [50,800] ms; pipelines of 1-10 single/split requests, a subset of fragments stalls forever (~T) or answers "
             "late (T+300..1500 ms); seeded schedules incl. proxy stalls; thorough additionally enumerates stalled position(s) x kind x "
             "forever|late for pipelines <= 5; non-trivial = at least one fragment stalled/late; distinct = proxy-visible event-sequence hash",
        quick=dict(budget_s=70, profiles=[P("C16", 300)]),
        thorough=dict(budget_s=1200, profiles=[P("C16", 8000), P("C16", 0, enumerate=["enum:%d" % i for i in range(750)])]),
        reach=["c16_stalled_fragments"],
    ),
}
