"""Per-property batch configuration for ./check (which profiles, how many runs, reach requirements)."""

def P(profile, runs, variant="", **kw):
    d = dict(profile=profile, runs=runs, variant=variant)
    d.update(kw)
    return d

PROPS = {
    "C01": dict(
        level="exploration",
        rule="seeded random plans (1-4 clients, pipelines of 1-80 mixed forwarded/split/local/rejected requests) x seeded schedules "
             "(per-backend reply release order, segmentation, poll ready-list order); a run is non-trivial when some client mixes "
             "locally answered and forwarded requests and at least one poll returned >=2 ready descriptors; distinct = distinct hash of the "
             "proxy-visible event sequence (ordered ready lists + syscall result classes)",
        quick=dict(budget_s=70, profiles=[P("C01", 500)]),
        thorough=dict(budget_s=1500, profiles=[P("C01", 20000), P("C01", 6000, "deep")]),
        reach=["PollsMulti", "ShortReads", "ShortWrites"],
    ),
}
