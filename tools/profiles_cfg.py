"""Per-property batch configuration for ./check (which profiles, how many runs, reach requirements)."""

def P(profile, runs, variant="", **kw):
    d = dict(profile=profile, runs=runs, variant=variant)
    d.update(kw)
    return d

PROPS = {
    "C01": dict(
        level="exploration",
        rule="seeded random plans (1-4 clients, pipelines of 1-80 mixed forwarded/split/local/rejected requests) x seeded schedules "
             "(per-backend reply release order, segmentation, poll ready-list order); a run is non-trivial when some client mixes "
             "locally answered and forwarded requests and at least one poll returned >=2 ready descriptors; distinct = distinct hash of the "
             "proxy-visible event sequence (ordered ready lists + syscall result classes); variant crowd: 140-330 connections with short "
             "pipelines that become ready in the same polls (the poller's 128-entry event list is exceeded and must grow)",
        quick=dict(budget_s=80, profiles=[P("C01", 450), P("C01", 12, "crowd"), P("C01", 8, "backlog")]),
        thorough=dict(budget_s=1800, profiles=[P("C01", 20000), P("C01", 6000, "deep"), P("C01", 800, "crowd"), P("C01", 300, "backlog")]),
        reach=["PollsMulti", "ShortReads", "ShortWrites", "PollsTruncated"],
    ),
    "C09": dict(
        level="exploration",
        rule="open-loop clients (one request every d ms, d below/equal/above the backend latency L) under a strictly fair, fault-free "
             "schedule; oracle: reply i reaches the client within 3 rounds / 1 fake second of the round in which the proxy had been handed "
             "the backend replies of requests 0..i; non-trivial = at least one request completed while a later one was already outstanding; "
             "distinct = distinct proxy-visible event-sequence hash; variant burst: one client pipelines 1025-4200 requests at once and the "
             "oldest (plus up to two others) is answered late, so thousands of completed replies must be flushed at once behind it; variant slowreader: the client does not read for 150-600 ms "
             "(small send buffer: the proxy's writes block, replies queue up), then reads - everything complete must still arrive (no lag bound here); variant trickle: some replies arrive as a few bytes glued to the end "
             "of the previous reply and the rest 40-400 ms later (the complete reply before them must not wait for that)",
        quick=dict(budget_s=80, profiles=[P("C09", 200), P("C09", 14, "burst"), P("C09", 30, "slowreader"), P("C09", 100, "trickle")]),
        thorough=dict(budget_s=1200, profiles=[P("C09", 6000), P("C09", 600, "burst"), P("C09", 1500, "slowreader"), P("C09", 4000, "trickle")]),
        reach=["c09_completed_while_later_outstanding", "c09_burst_over_1024_behind_head", "c09_blocked_client_writes"],
    ),
    "C16": dict(
        level="fault_enumeration",
        rule="request timeout T in [50,800] ms; pipelines of 1-10 single/split requests, a subset of fragments stalls forever (~T) or answers "
             "late (T+300..1500 ms); seeded schedules incl. proxy stalls; thorough additionally enumerates stalled position(s) x kind x "
             "forever|late for pipelines <= 5; variant hung: a whole node stops reading and answering (connections stay open, small send buffers: the "
             "proxy's writes to it block) - its requests must get an error in position, all others are served; non-trivial = at least one fragment stalled/late; distinct = proxy-visible event-sequence hash",
        quick=dict(budget_s=70, profiles=[P("C16", 300), P("C16", 100, "hung")]),
        thorough=dict(budget_s=1200, profiles=[P("C16", 8000), P("C16", 3000, "hung"), P("C16", 0, enumerate=["enum:%d" % i for i in range(750)])]),
        reach=["c16_stalled_fragments", "c16_requests_for_hung_node", "c16_blocked_backend_writes"],
    ),
    "C02": dict(
        level="exploration",
        rule="every documented single-key command (round-robin over docs/command.md) with exotic argument bytes (empty, binary, CR/LF, RESP look-alikes, "
             "64 KiB+-1, MiB in thorough) and scripted replies of all RESP2 shapes/sizes, under segmentation, short reads/writes, EAGAIN, tiny "
             "send buffers, slow readers, read buffers of 16 B..64 KiB, with/without password and replicas; oracle: backend bytes = client bytes with "
             "only the command name lower-cased, client bytes = backend reply bytes; variant aligned: requests and replies arrive split over several reads "
             "with piece lengths tied to message boundaries and to the lengths of earlier messages on the same connection; non-trivial = a short read/write or EAGAIN actually occurred",
        quick=dict(budget_s=80, profiles=[P("C02", 400), P("C02", 200, "aligned")]),
        thorough=dict(budget_s=1500, profiles=[P("C02", 15000), P("C02", 600, "big"), P("C02", 8000, "aligned")]),
        reach=["ShortReads", "ShortWrites", "EAGAINWrite", "c02_big_messages"],
    ),
    "C04": dict(
        level="exploration",
        rule="random topologies (3-8 masters, 0-3 replicas, contiguous/fragmented/single-slot ranges), every documented command, keys pinned to random "
             "slots, plain, or with adversarial brace arrangements; oracle at the backends with an independent CRC16/hash-tag implementation and Redis' "
             "read/write classification; handshake checked on every backend connection; non-trivial = more than 3 distinct slots hit",
        quick=dict(budget_s=80, profiles=[P("C04", 500)]),
        thorough=dict(budget_s=1500, profiles=[P("C04", 20000)]),
        reach=["c04_replica_reads", "c04_slots_hit"],
    ),
    "C06": dict(
        level="exploration",
        rule="MGET/DEL/MSET with 1-300 keys (thorough: up to 5000), duplicates, many keys per slot via hash tags, empty and binary keys/values over "
             "random slot layouts; oracle on the wire at the backends: one well-formed same-kind fragment per distinct slot carrying exactly the "
             "request's keys of that slot in order; non-trivial = request spans several slots. The input dimension is sampled.",
        quick=dict(budget_s=80, profiles=[P("C06", 400), P("C06", 100, "fdreuse")]),
        thorough=dict(budget_s=1500, profiles=[P("C06", 12000), P("C06", 200, "huge"), P("C06", 4000, "fdreuse")]),
        reach=["c06_multislot_requests", "c06_rejected_oversized"],
    ),
    "C07": dict(
        level="exploration",
        rule="split requests as C06 with mixed present/absent keys and awkward values, fragment replies released in seeded random orders and byte-level "
             "interleavings; oracle: merged reply equals the harness's own merge of what each node returned in this run; non-trivial = fragment replies "
             "arrived in an order different from request order",
        quick=dict(budget_s=80, profiles=[P("C07", 350), P("C07", 120, "reuse"), P("C07perm", 0, enumerate=["perm:%d:%d:-1" % (sh, pm) for sh in (1, 2, 6) for pm in range([2, 6, 24, 120][sh % 4])])]),
        thorough=dict(budget_s=1800, profiles=[P("C07", 12000), P("C07", 5000, "reuse"),
                      P("C07perm", 0, enumerate=["perm:%d:%d:-1" % (sh, pm) for sh in range(40) for pm in range([2, 6, 24, 120][sh % 4])]),
                      P("C07perm", 0, enumerate=["perm:%d:%d:%d" % (sh, pm, cut) for sh in range(0, 40, 7) for pm in range([2, 6, 24, 24][sh % 4]) for cut in range(0, 12)])]),
        reach=["c07_out_of_order_arrivals"],
    ),
    "C08": dict(
        level="exploration",
        rule="well-formed pipelines (all request classes, binary-safe arguments, some >128 KiB) cut into seeded random chunks, 1-byte chunks, and (thorough) "
             "every single cut position and cut pairs of fixed pipelines, plus boundary-related cuts (variant aligned: on request boundaries, fixed distances around them, "
             "at the length of an earlier request into a later one; one read per chunk), with read buffers of 16 B..64 KiB; oracle: exactly the planned requests are "
             "recognised once each, in order, unaltered, and the connection is never closed or answered early; non-trivial = more than 3 proxy reads",
        quick=dict(budget_s=80, profiles=[P("C08", 300), P("C08", 300, "aligned"), P("C08", 40, "deep")]),
        thorough=dict(budget_s=1800, profiles=[P("C08", 8000), P("C08", 12000, "aligned"), P("C08", 1500, "deep")] + [P("C08", 0, enumerate=["cut:%d:%d" % (pl, pos) for pl in range(12) for pos in range(0, 400)])]
                      + [P("C08", 0, enumerate=["cut:%d:%d:%d" % (pl, pos, d) for pl in range(3) for pos in range(0, 200, 3) for d in range(0, 64, 5)])]),
        reach=["ShortReads", "c08_chunks"],
    ),
    "C10": dict(
        level="exploration",
        rule="one connection per node; 1-5 clients with deep pipelines (single, split, SET;GET pairs on private keys), interleavings of client reads, "
             "write signals (thorough: >256 queued tasks per poll), backend replies and blocked/short backend writes; oracle: per (client,node) request "
             "indices arrive non-decreasing, and each pipelined GET observes its SET; profile C10redir (stale view, MOVED/ASK): two requests of one client redirected by the same "
             "node to the same node are executed there in the order sent; variant connloss: the connection to a node is lost right after the client handed "
             "over a request for it (before the deferred write ran) and the next request arrives in a read of its own; non-trivial = several clients or a blocked/short backend write",
        quick=dict(budget_s=80, profiles=[P("C10", 300), P("C10", 120, "connloss"), P("C10redir", 120), P("C10redir", 60, "moved")]),
        thorough=dict(budget_s=1500, profiles=[P("C10", 8000), P("C10", 300, "tasks"), P("C10", 4000, "connloss"), P("C10redir", 3000), P("C10redir", 3000, "moved")]),
        reach=["c10_set_get_pairs", "c10_redirected_same_path_pairs"],
    ),
    "C11": dict(
        level="fault_enumeration",
        rule="the model answers a chosen subset of fragments with an error from a 21-entry catalogue (ERR, WRONGTYPE, LOADING, CLUSTERDOWN, TRYAGAIN, "
             "CROSSSLOT, READONLY, BUSY, NOSCRIPT, OOM, MASTERDOWN, the full MISCONF text, error lines of 127-131, 200 and 1000 bytes, ...); quick: seeded random subsets/orders; thorough: every request kind x fragment "
             "count k<=4 x non-empty erroring subset x error kind, each under a seeded arrival order; oracle: single-key -> error verbatim, split -> "
             "some error reply, never a success value, later requests and other clients still served, proxy alive; non-trivial = a backend error occurred",
        quick=dict(budget_s=80, profiles=[P("C11", 400)]),
        thorough=dict(budget_s=1500, profiles=[P("C11", 8000), P("C11", 0, enumerate=["enum:%d" % i for i in range(4 * 21 * 26)])]),
        reach=["c11_error_replies"],
    ),
    "C12": dict(
        level="exploration",
        rule="offender clients send grammar-mutated RESP (zero/negative/huge/overflowing/non-canonical counts and lengths, $-1 arguments, bare CR/LF, wrong "
             "type markers, inline commands, truncation, unfulfilled lengths, random bytes) in seeded segmentation while witness clients run closed-loop "
             "round trips; oracle: proxy alive and not spinning, witnesses served correctly, no backend ever records what redis-server's parser rejects, "
             "a definite protocol error is answered with an error or a close by the end of the settle phase",
        quick=dict(budget_s=80, profiles=[P("C12", 600)]),
        thorough=dict(budget_s=1500, profiles=[P("C12", 30000)]),
        reach=["c12_definite_protocol_errors"],
    ),
    "C17": dict(
        level="exploration",
        rule="every documented command name (Yes and No rows of docs/command.md, read at check time) plus unknown names in mixed case, argument counts "
             "0..arity+2, request and reply sizes L-1, L, L+1 for limits L in {64, 200, 4 KiB, 6 MiB}, alone and inside pipelines delivered in one or many "
             "segments; oracle: served iff supported and arity ok (Redis' documented arity; in-between counts unspecified) and own size <= L, otherwise "
             "the corresponding error and nothing reaches a backend; non-trivial = at least one request had to be rejected",
        quick=dict(budget_s=80, profiles=[P("C17", 600)]),
        thorough=dict(budget_s=1500, profiles=[P("C17", 30000)]),
        reach=["c17_rejected", "c17_near_limit"],
    ),
    "C15": dict(
        level="fault_enumeration",
        rule="pipelines of 1-12 single/split requests from 1-3 clients; one fault per run (thorough: up to three): backend connection FIN/RST before the "
             "fragment is read / after it is read / after k reply bytes, a peer reset that meets the proxy's next write without a prior hang-up event, node down then up, or a slot range moved to a node the proxy does not know; "
             "thorough enumerates fault phase x affected position x request kind for pipelines <= 6; request timeout 0 and >0; oracle (fair settle phase "
             "after the last fault): every request has a reply (data or error) or its client connection was closed by the proxy, data replies are "
             "still right, a client connecting after the fault is served over a new connection; non-trivial = a fault actually fired",
        quick=dict(budget_s=80, profiles=[P("C15", 500)]),
        thorough=dict(budget_s=1500, profiles=[P("C15", 10000), P("C15", 3000, "multi"), P("C15", 0, enumerate=["enum:%d" % i for i in range(3 * 6 * 6 * 3)])]),
        reach=["c15_faults", "backend_conn_killed", "c15_rst_at_write_fired"],
    ),
    "C13": dict(
        level="exploration",
        rule="the proxy holds a converged view that the model makes stale: slots handed to another known master (MOVED) and slots in migration with a "
             "seeded subset of keys already moved (ASK, importing node insists on ASKING), hit by single-key requests and by fragments of split "
             "requests at seeded pipeline positions while all nodes keep reporting the old view; oracle: client gets exactly the final owner's reply "
             "in position, no fragment is redirected more than 16 times; variant connloss: the redirect target resets its connection just when the "
             "redirect is produced (both reach the proxy in one poll) - the request must still end in a reply, an error or a closed connection; non-trivial = at least one redirect was answered",
        quick=dict(budget_s=80, profiles=[P("C13", 300), P("C13", 150, "mixed"), P("C13", 120, "connloss")]),
        thorough=dict(budget_s=1500, profiles=[P("C13", 8000), P("C13", 3000, "moved"), P("C13", 3000, "ask"), P("C13", 6000, "mixed"), P("C13", 4000, "connloss")]),
        reach=["c13_moved", "c13_ask"],
    ),
    "C03": dict(
        level="exploration",
        rule="2-6 concurrent clients with pipelines over shared infrastructure; clients disconnect (FIN/RST) with requests in flight, new clients connect "
             "right after (object/fd reuse), topologies with unowned slot ranges and nodes refusing connections, multi-key requests straddling them, "
             "request timeouts with stalled backends, backend connections killed mid-run; oracle: every delivered reply equals the token-matched backend "
             "reply (or merge) for that client's request at that position or is a proxy error; missing replies are not this property's business; "
             "non-trivial = an unroutable request, a client disconnect or a backend kill actually occurred",
        quick=dict(budget_s=90, profiles=[P("C03", 300), P("C03", 160, "swarm"), P("LIN", 50), P("LIN", 40, "redir"), P("LIN", 40, "faulty"), P("LIN", 30, "swarm")]),
        thorough=dict(budget_s=2400, profiles=[P("C03", 25000), P("C03", 20000, "swarm"), P("LIN", 5000), P("LIN", 5000, "redir"), P("LIN", 5000, "faulty"), P("LIN", 5000, "swarm")]),
        reach=["c03_unroutable_replies", "c03_client_disconnects", "backend_conn_killed", "lin_concurrent_pairs", "lin_redirects", "lin_unknown_outcomes"],
    ),
    "C14": dict(
        level="exploration",
        rule="histories of 1-4 (thorough: up to 8) cluster descriptions derived by seeded mutations (failover, new master/replica, replica removed / flagged "
             "fail, fail?, handshake, noaddr, disconnected / loading / master link down / re-parented, slot ranges moved, migration markers, failed or "
             "ghost masters), with per-node lag and interleaved unusable probe answers (error, nil, +OK, oversized, truncated, too few nodes, garbage); "
             "variant return: a known replica drops out for 6 s and comes back listed as connected while its INFO says loading / link down; "
             "oracle by routing, anchored on the first probe reply carrying the final description that the proxy consumed (+3 fake seconds, fair "
             "schedule): writes reach the claiming master, reads only it or its usable replicas, unclaimed slots are refused; "
             "non-trivial = history non-empty and probes were served",
        quick=dict(budget_s=90, profiles=[P("C14", 120), P("C14", 50, "valid-only"), P("C14", 70, "yield"), P("C14", 60, "flap"), P("C14", 40, "return")]),
        thorough=dict(budget_s=1800, profiles=[P("C14", 6000), P("C14", 2000, "long"), P("C14", 2000, "valid-only"), P("C14", 4000, "yield"), P("C14", 3000, "flap"), P("C14", 2000, "return")]),
        reach=["c14_history_steps", "c14_probe_requests_served", "yield_parked_cluster.servers-set", "yield_parked_cluster.before-flag", "c14_rediscovered_nodes"],
    ),
    "C20": dict(
        level="exploration",
        rule="3-4 masters with 2-4 healthy replicas each, replica reads enabled, about 300 read commands per master (12 read command types) mixed with "
             "writes from 1-3 pipelining clients under seeded schedules; variant with one replica refusing connections; variant pattern: one client "
             "repeating a short regular cycle of (master, read|write) steps (strict rotation, write-then-read pairs, seeded cycles); variant recover: a replica is unreachable for 1.5-4 s with sparse reads of its "
             "master meanwhile, comes back, and 20 fake seconds later 300 reads per master must reach it like every other replica; oracle: every replica that was "
             "healthy for the whole run served at least one of >=200 reads of its master (miss probability < 1e-35 under uniform choice), writes only "
             "at masters; non-trivial = more than 400 reads observed",
        quick=dict(budget_s=90, profiles=[P("C20", 50), P("C20", 20, "banned"), P("C20", 60, "pattern"), P("C20", 25, "recover"), P("C20", 25, "closed")]),
        thorough=dict(budget_s=1200, profiles=[P("C20", 2000), P("C20", 600, "banned"), P("C20", 3000, "pattern"), P("C20", 1500, "recover"), P("C20", 1500, "closed")]),
        reach=["c20_reads", "c20_recover_dial_refused"],
    ),
    "C18": dict(
        level="exploration",
        rule="whitelist file histories: initial file (enabled/disabled, 0-6 IPv4/IPv6 addresses) and 1-10 edits (add, remove, replace all, enable, disable) "
             "applied as in-place write, truncate-then-write in two steps, invalid YAML then valid, delete+recreate, or rename-over; real files and "
             "real inotify with a sentinel barrier; after every edit 5-8 probe clients from listed, unlisted, formerly listed and IPv6 addresses "
             "(arbitrary source addresses come from the simulated kernel); oracle: admitted iff disabled or listed in the current file; admitted = "
             "+PONG and the GET reaches a backend, rejected = closed with zero bytes and nothing forwarded; non-trivial = both outcomes occurred",
        quick=dict(budget_s=90, profiles=[P("C18", 300)]),
        thorough=dict(budget_s=1500, profiles=[P("C18", 8000), P("C18", 2000, "inplace"), P("C18", 2000, "v4")]),
        reach=["c18_admitted", "c18_rejected", "c18_edits"],
    ),
    "C19": dict(
        engine="component",
        level="exploration",
        rule="component level: seeded operation sequences (pgregory.net/rapid state machines, <=60 steps each) against ring.Buffer, linkedlist.Buffer, "
             "elastic.Buffer and elastic.RingBuffer with a plain []byte queue as reference model: Write, Writev, WriteString, WriteByte, fill-exactly, "
             "Read, ReadByte, Peek(n), PeekWithBytes, Discard(n), Reset, Release/Done, sizes concentrated at 0, 1 and the capacity / static-limit "
             "thresholds, every byte distinct, a second buffer sharing the slice and ring pools; system level: the C02 workload with slow readers, "
             "8-512 byte send buffers and 16-257 byte read buffers (real partial writes and leftovers through the simulated kernel); non-trivial = "
             "wrap-around, growth, spill to the list or pool recycling happened (component) / blocked and short writes occurred (system); distinct = "
             "distinct operation traces (component) + distinct proxy-visible event-sequence hashes (system)",
        quick=dict(budget_s=90, profiles=[P("C19", 150), P("C19", 100, "aligned")], component=dict(checks=3000, shards=4)),
        thorough=dict(budget_s=1500, profiles=[P("C19", 10000), P("C19", 6000, "aligned")], component=dict(checks=100000, shards=8, steps=120)),
        reach=["EAGAINWrite", "ShortWrites", "ShortReads"],
    ),
}

# ---- scaling after the shared-process search accelerator (DESIGN.md 12.6) ----
# The run counts above were calibrated for one OS process per run (~25 runs/s on this VM, which serialises process
# creation). Running the jobs of a chunk in one process is 5-10 times cheaper, so the same wall-clock budgets now hold
# several times more runs. Enumerations (explicit variant lists) are complete as they are and are not scaled.
_QUICK_MULT = {"C02": 4, "C03": 3, "C07": 4, "C08": 4, "C14": 3, "C17": 3, "C18": 3, "C19": 2, "C20": 4}
_THOROUGH_MULT = {"C18": 2, "C19": 3}
for _p, _cfg in PROPS.items():
    for _spec in _cfg["quick"]["profiles"]:
        _spec["runs"] *= _QUICK_MULT.get(_p, 5)
    for _spec in _cfg["thorough"]["profiles"]:
        _spec["runs"] *= _THOROUGH_MULT.get(_p, 8)
