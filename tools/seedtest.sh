#!/bin/sh
# Evaluate a seeded breaking change: tools/seedtest.sh <patch.diff> <PROP> [<PROP>...]
# Applies the patch to a scratch worktree of /repo (outside /repo and /verif), runs the named quick checks against it
# (VERIF_REPO), prints which of them report a violation, and removes the worktree again.
set -e
patch=$(readlink -f "$1"); shift
wt=/tmp/seedtest-$$
git -C /repo worktree add -q --detach "$wt" HEAD
trap 'git -C /repo worktree remove --force "$wt" >/dev/null 2>&1 || true' EXIT
git -C "$wt" apply "$patch"
cd "$(dirname "$0")/.."
for p in "$@"; do
  out=$(VERIF_REPO="$wt" ./check "$p" --no-evidence 2>&1 || true)
  if echo "$out" | grep -q "^VIOLATION"; then
    echo "CAUGHT by $p: $(echo "$out" | grep -m2 'signature:' | tr '\n' ' ' | cut -c1-260)"
  else
    echo "missed by $p: $(echo "$out" | grep -E '^check ' | tail -1)"
  fi
done
rm -f replays/tmp-seed-* 2>/dev/null || true
