#!/bin/sh
# Evaluate a seeded breaking change: tools/seedtest.sh <patch.diff> <PROP> [<PROP>...]
# Applies the patch to a scratch worktree of /repo (outside /repo and /verif), runs the named quick checks against it
# (VERIF_REPO), prints which of them report a violation, and removes the worktree again.
set -e
patch=$(readlink -f "$1"); shift
wt=/tmp/seedtest-$$
git -C /repo worktree add -q --detach "$wt" HEAD
trap 'git -C /repo worktree remove --force "$wt" >/dev/null 2>&1 || true' EXIT
git -C "$wt" apply "$patch"
cd "$(dirname "$0")/.."
for p in "$@"; do
  out=$(VERIF_REPO="$wt" VERIF_REPLAY_DIR="$wt/.replays" VERIF_MAX_MINIMISED=1 VERIF_MIN_BUDGET=40 VERIF_STOP_AT_FIRST=1 ./check "$p" --no-evidence 2>&1 || true)
  if echo "$out" | grep -q "^VIOLATION"; then
    echo "CAUGHT by $p: $(echo "$out" | grep -c '^VIOLATION') signature(s): $(echo "$out" | grep -m3 'signature:' | tr '\n' ' ' | cut -c1-300)"
    if [ -n "$SEED_KEEP_REPLAY" ]; then f=$(echo "$out" | grep -m1 '^VIOLATION' | sed 's/.*replay=//'); [ -f "$f" ] && cp "$f" "$SEED_KEEP_REPLAY/replay-$p.json"; fi
  else
    echo "missed by $p: $(echo "$out" | grep -E '^check ' | tail -1)"
  fi
done
