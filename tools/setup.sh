#!/bin/sh
# MANIFEST.setup_cmd: build the framework offline from files on disk, then prove determinism on a sample.
set -e
cd "$(dirname "$0")/.."
export GOFLAGS=-mod=mod GOPROXY=off GOSUMDB=off GOTOOLCHAIN=local
python3 tools/gen_build.py
./check build
python3 tools/determinism.py 2 6
