#!/usr/bin/env python3
"""tools/seed_results.py <matrix log>...: record the outcome of tools/seedtest.sh runs (lines '== <seed dir>' followed by
'CAUGHT by <check>: ...' / 'missed by <check>: ...') in seeded/<seed>/meta.json (latest_evaluation, caught_by, missed_by)."""
import json, os, re, sys
V = os.path.dirname(os.path.dirname(os.path.abspath(__file__)))
cur = None
for path in sys.argv[1:]:
    for line in open(path, errors="replace"):
        m = re.match(r"== (\S+)", line)
        if m:
            cur = m.group(1); continue
        m = re.match(r"(CAUGHT|missed) by (\w+): (.*)", line)
        if m and cur and os.path.isdir(os.path.join(V, "seeded", cur)):
            p = os.path.join(V, "seeded", cur, "meta.json")
            meta = json.load(open(p))
            caught = [c for c in meta.get("caught_by", []) if c != "TBD"]
            missed = meta.get("missed_by", [])
            chk = m.group(2)
            if m.group(1) == "CAUGHT":
                if not any(c.split(" ")[0] == chk for c in caught):
                    caught.append(chk)
                meta["latest_evaluation"] = {"check": chk, "result": "caught", "signatures": m.group(3)[:300]}
            else:
                meta["latest_evaluation"] = {"check": chk, "result": "missed", "summary": m.group(3)[:200]}
                if not any(x.startswith(chk) for x in missed):
                    missed.append(chk + " (quick tier, latest evaluation)")
            meta["caught_by"], meta["missed_by"] = caught, missed
            json.dump(meta, open(p, "w"), indent=1)
            print(cur, m.group(1), chk)
