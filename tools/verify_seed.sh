#!/bin/sh
# tools/verify_seed.sh <seed-id> <patch.diff> <demo test file (goes to core/ or core/server/)> <dest pkg dir> <go test args...>
# Confirms in a fresh scratch worktree: demo passes without the patch; with it: build ok, baseline tests unchanged, demo fails.
set -e
id=$1; patch=$(readlink -f "$2"); demo=$(readlink -f "$3"); pkg=$4; shift 4
export GOFLAGS=-mod=mod GOPROXY=off GOSUMDB=off
wt=/tmp/verifyseed-$$
git -C /repo worktree add -q --detach "$wt" HEAD
trap 'git -C /repo worktree remove --force "$wt" >/dev/null 2>&1 || true' EXIT
mkdir -p "$wt/$pkg"; cp "$demo" "$wt/$pkg/$(basename "$demo" | sed 's/\.txt$//')"
cd "$wt"
base() { go test -vet=off -count=1 ./core/... 2>&1 | grep -E "^(--- FAIL|ok|FAIL)" | grep -v -i seeded | sed -E 's/\(?[0-9.]+s\)?$//' | sort ; }
echo "[$id] demo without patch:"; if go test -vet=off -count=1 "$@" >/tmp/vs-$$.log 2>&1; then echo "  PASS (as required)"; else echo "  FAIL (unexpected)"; tail -5 /tmp/vs-$$.log; fi
mv "$wt/$pkg/$(basename "$demo" | sed 's/\.txt$//')" /tmp/vs-demo-$$
b0=$(base)
git apply "$patch"
go build ./... && echo "  build with patch: ok"
b1=$(base)
if [ "$b0" = "$b1" ]; then echo "  baseline tests unchanged by patch: ok"; else echo "  baseline tests DIFFER"; echo "$b0" > /tmp/b0; echo "$b1" > /tmp/b1; diff /tmp/b0 /tmp/b1 | head; fi
mv /tmp/vs-demo-$$ "$wt/$pkg/$(basename "$demo" | sed 's/\.txt$//')"
echo "[$id] demo with patch:"; if go test -vet=off -count=1 "$@" >/tmp/vs-$$.log 2>&1; then echo "  PASS (unexpected: change not demonstrated)"; else echo "  FAIL (as required)"; grep -m3 -E "^\s+.*_test.go|panic:" /tmp/vs-$$.log | cut -c1-200; fi
rm -f /tmp/vs-$$.log
