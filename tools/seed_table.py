#!/usr/bin/env python3
"""Print the DESIGN.md 12.4 table (one row per seeded change) from seeded/*/meta.json."""
import json, os, re
V = os.path.dirname(os.path.dirname(os.path.abspath(__file__)))
print("| Seed | Property | What the change needs in order to manifest | Quick-tier result |")
print("|---|---|---|---|")
for d in sorted(os.listdir(os.path.join(V, "seeded"))):
    p = os.path.join(V, "seeded", d, "meta.json")
    if not os.path.exists(p):
        continue
    m = json.load(open(p))
    caught = [c for c in m.get("caught_by", []) if c != "TBD"]
    missed = [x for x in m.get("missed_by", []) if "latest evaluation" not in x]
    latest = m.get("latest_evaluation", {})
    res = "caught by " + ", ".join(caught) if caught else "NOT caught"
    if latest.get("result") == "missed":
        res = "NOT caught (latest evaluation)" + ("; earlier: " + ", ".join(caught) if caught else "")
    if missed:
        res += "; missed by " + "; ".join(missed)
    print("| %s | %s | %s | %s |" % (d.split("-")[0], m["breaks_property"], m["needs_to_manifest"].replace("|", "/"), res))
