#!/bin/sh
# Diagnostic for the trusted base: run the same scripted conversation over a real loopback TCP connection (real epoll,
# eventfd) and over the simulated kernel and compare errno classes, byte counts and epoll bits step by step.
# Not part of setup_cmd or of any check (it uses real time); exit 0 = the simulated kernel agrees with this Linux kernel.
cd "$(dirname "$0")/.."
./check build >/dev/null 2>&1 || exit 2
exec build/simrun.test -test.run '^TestKernelConformance$' -test.v
