"""C19 component engine: seeded state-machine simulation of the buffer packages (sim/comp, pgregory.net/rapid).

Returns (exit_code, lines, coverage_extra). A failing rapid run leaves a .fail file that replays it exactly; it is
copied to /verif/replays and re-executed in a fresh process before a VIOLATION line is printed."""
import concurrent.futures as cf, json, os, re, shutil, subprocess, tempfile, time

TESTS = ["TestRing", "TestLinkedList", "TestElastic", "TestElasticRing"]


def build(VERIF, BUILD, GO, ENV, log):
    out = os.path.join(BUILD, "comp.test")
    extra = []
    if os.environ.get("VERIF_REPO") and os.path.exists(os.path.join(BUILD, "go.alt.mod")):
        extra = ["-modfile=" + os.path.join(BUILD, "go.alt.mod")]
    r = subprocess.run([GO, "test", "-c", "-tags", "verif"] + extra + ["-overlay", os.path.join(BUILD, "overlay", "overlay.json"), "-o", out + ".new", "./comp"],
                       cwd=os.path.join(VERIF, "sim"), env=ENV, capture_output=True, text=True)
    if r.returncode != 0:
        log("check: component build failed (exit 2, not a violation):\n" + r.stdout[-3000:] + r.stderr[-3000:])
        return None
    os.replace(out + ".new", out)
    return out


def replay(binp, path, ENV):
    m = re.search(r"(Test[A-Za-z]+)", os.path.basename(path))
    test = m.group(1) if m else "Test"
    wd = tempfile.mkdtemp(prefix="comp-replay-", dir=os.path.dirname(binp))
    try:
        p = subprocess.run([binp, "-test.run", "^%s$" % test, "-rapid.failfile", os.path.abspath(path)], cwd=wd, env=ENV, capture_output=True, text=True, errors="replace")
        return p.returncode != 0, (p.stdout + p.stderr)[-3000:]
    finally:
        shutil.rmtree(wd, ignore_errors=True)


def run(prop, cfg, tier, seed, VERIF, BUILD, GO, ENV, log, workers=16):
    binp = build(VERIF, BUILD, GO, ENV, log)
    if binp is None:
        return 2, [], {}
    tc = cfg[tier]["component"]
    jobs = [(t, seed * 1000 + s) for t in TESTS for s in range(tc["shards"])]
    tmp = tempfile.mkdtemp(prefix="comp-", dir=BUILD)
    lines, fails, stats_total, infra = [], [], {}, []
    t0 = time.time()

    def one(job):
        test, s = job
        wd = os.path.join(tmp, "%s-%d" % (test, s))
        os.makedirs(wd)
        env = dict(ENV, COMP_STATS=os.path.join(wd, "stats.json"))
        p = subprocess.run([binp, "-test.run", "^%s$" % test, "-rapid.checks", str(tc["checks"]), "-rapid.steps", str(tc.get("steps", 60)),
                            "-rapid.seed", str(s + 1), "-test.timeout", "0"], cwd=wd, env=env, capture_output=True, text=True, errors="replace")
        st = {}
        if os.path.exists(env["COMP_STATS"]):
            st = json.load(open(env["COMP_STATS"]))
        ff = None
        m = re.search(r'-rapid\.failfile="([^"]+)"', p.stdout + p.stderr)
        if m:
            ff = os.path.join(wd, m.group(1))
        return job, p.returncode, p.stdout + p.stderr, st, ff

    with cf.ThreadPoolExecutor(max_workers=workers) as ex:
        for job, rc, out, st, ff in ex.map(one, jobs):
            for k, v in st.items():
                stats_total[k] = stats_total.get(k, 0) + v
            if rc == 0:
                continue
            if ff and os.path.exists(ff):
                fails.append((job, out, ff))
            else:
                infra.append((job, out[-1500:]))
    os.makedirs(os.path.join(VERIF, "replays"), exist_ok=True)
    vio = 0
    seen = set()
    for (test, s), out, ff in fails:
        m = re.search(r"\[rapid\] (?:failed|panic) after \d+ tests: (.*)", out)
        what = m.group(1)[:300] if m else "state-machine check failed"
        key = test + re.sub(r"\d+", "N", what)[:80]
        if key in seen:
            continue
        seen.add(key)
        dst = os.path.join(VERIF, "replays", "C19-%s-%d.fail" % (test, s))
        shutil.copy(ff, dst)
        again, _ = replay(binp, dst, ENV)
        if not again:
            infra.append(((test, s), "rapid failure did not reproduce from its .fail file"))
            continue
        vio += 1
        lines.append("VIOLATION property=%s replay=%s" % (prop, dst))
        lines.append("  %s: %s" % (test, what))
    shutil.rmtree(tmp, ignore_errors=True)
    extra = {
        "component_state_machine_runs": len(jobs) * tc["checks"],
        "component_tests": TESTS,
        "component_distinct_nontrivial_sequences": stats_total.get("distinct_nontrivial_sequences", 0),
        "component_reach": {k: v for k, v in stats_total.items() if k != "distinct_nontrivial_sequences"},
        "component_wall_s": round(time.time() - t0, 1),
        "component_samples": [{"engine": "component", "case": "rapid state machine over ring/linkedlist/elastic buffers: write, writev, write-byte, fill-exactly, read, read-byte, peek, peek-with-bytes, discard, reset, release, with a second buffer sharing the pools"}],
    }
    code = 1 if vio else 0
    if infra and not vio:
        for job, msg in infra[:3]:
            log("check: component infra trouble on %s: %s" % (job, msg))
        code = 2
    for key in ("ring_wrapped", "ring_grew", "elastic_spilled_to_list", "elastic_partial_discard", "elastic_writev", "elasticring_returned_to_pool", "list_partial_read"):
        if code == 0 and stats_total.get(key, 0) == 0:
            log("check: insufficient reach in the component engine: %s stuck at zero" % key)
            code = 2
    return code, lines, extra
