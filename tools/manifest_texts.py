HOOK_COMMITS = ["7af2c1d"]

NOT_APPLICABLE = {
    "C05": "pure function of the key bytes: no schedule, clock, fault, I/O or second party can influence it, so deterministic simulation has nothing to explore "
           "(dressing key sampling in simulator vocabulary would be input generation, not simulation). Its observable consequence - proxy and cluster agree on the "
           "owner of a key - is exercised by C04, whose oracle computes the owner with an independent CRC16/hash-tag implementation over adversarial brace "
           "arrangements; that is how the hash-tag defect (fixed in 89b65b1) was found.",
}

_sim_note = ("trusted: fidelity of the simulated kernel (sim/kernel.go) to Linux non-blocking socket/epoll/eventfd semantics and of the redis cluster model "
             "(sim/cluster.go) to redis-server for the behaviours used; go1.26.8 testing/synctest plus small runtime/net overlay patches (map seed, 50 ns clock tick "
             "for the event-loop goroutine, dial hooks); GOMAXPROCS=1 build behaves like the shipped build for this property. The space is sampled by seeded "
             "search unless an enumeration is named; a clean batch is evidence, not proof.")

_T = "deterministic whole-proxy simulation with seeded scheduler and fault injection; "

TEXTS = {
    "C01": dict(design_ref="6/C01", technique=_T + "token-relational reply-order oracle over recorded client/backend histories",
                level_text="seeded search over pipelines (forwarded, split, locally answered, rejected, QUIT) x per-backend reply release orders x segmentation with the real event loop; every "
                           "client stream must parse into exactly one reply per request, position by position equal to what the backends answered for that request (or the protocol constant "
                           "for locally answered ones), nothing after QUIT's +OK; a crowd variant makes 140-330 connections ready in the same polls (event-list growth); exploration level because the space is sampled",
                level_note=_sim_note),
    "C02": dict(design_ref="6/C02", technique=_T + "byte-exact comparison of client bytes with backend-side bytes (both directions)",
                level_text="every documented single-key command with exotic argument bytes and all RESP2 reply shapes/sizes (incl. pseudo-random nested arrays with null/empty arrays, nil/empty bulks and error elements at any depth) under segmentation, short reads/writes, EAGAIN, tiny send buffers, "
                           "slow readers and small read buffers; backend bytes must equal the client's with only the command name lower-cased, client bytes must equal the backend's reply",
                level_note=_sim_note + " Message sizes are capped when the drawn socket/read buffers are tiny so that transfers finish inside the settle budget."),
    "C03": dict(design_ref="6/C03", technique=_T + "token ownership oracle under client disconnects, unroutable slots, timeouts and backend kills; plus linearizability of recorded client histories on shared keys against a per-key register/counter model (porcupine v1.3.0)",
                level_text="concurrent client sessions with mid-flight disconnects, fd/object reuse, unowned slot ranges, refusing nodes, timeouts and killed backend connections; every delivered reply "
                           "must be the token-matched backend reply (or merge) for that connection's own request at that position, or a proxy-generated error; missing replies are not judged here. Profile LIN: 2-5 windowed closed-loop clients on 1-4 shared keys + a counter (GET/SET/GETSET/SETNX/APPEND/INCR/DECR/DEL/"
                           "STRLEN/EXISTS/MGET/MSET, unique values), fault-free, with MOVED/ASK redirects, and with backend kills/stalls/timeouts/client disconnects (operations answered with an error or not at all have "
                           "an unknown outcome: pending forever, effect optional); the history stamped with driver action numbers must be linearizable (Illegal = violation; keys with more than 5 unknown-outcome "
                           "operations are skipped; a search exceeding 60 s real time is inconclusive and never reported)",
                level_note=_sim_note),
    "C04": dict(design_ref="6/C04", technique=_T + "routing oracle at the backends with an independent key-slot function and Redis' command classification",
                level_text="random topologies and slot layouts, every documented command, keys over many slots incl. adversarial hash-tag brace arrangements, uneven replica counts (replica-less sets next to sets with replicas), password and replica-read settings; "
                           "each command must arrive in the replica set owning the reference slot (writes, scans, scripts at the master), and every backend connection must start with AUTH/READONLY as required",
                level_note=_sim_note + " Read/write classification is Redis' command table held in the harness, not rcproxy's constant order."),
    "C06": dict(design_ref="6/C06", technique=_T + "wire-level fragment oracle at the backends (per-slot subsequence equality)",
                level_text="MGET/DEL/MSET with up to 300 (thorough 5000) keys, duplicates, hash tags, empty/binary keys, per-slot key counts / key and value lengths on the decimal-digit boundaries of the encoding (9/10, 99/100, 999/1000), observed on the wire at the backends under partial writes and map-order variation: "
                           "exactly one well-formed same-kind fragment per distinct slot carrying that slot's keys (with values) in request order; the input dimension is sampled, so the level is modest",
                level_note=_sim_note),
    "C07": dict(design_ref="6/C07", technique=_T + "reference merge of the fragment replies actually returned in the run, under seeded arrival orders",
                level_text="split requests over pre-populated stores with fragment replies released in seeded orders and byte-level interleavings, plus exhaustive arrival orders for fixed shapes; the client's reply must equal the harness's own "
                           "merge (MGET per-key elements in request order, DEL sum, MSET conjunction) of what each node returned",
                level_note=_sim_note + " Thorough additionally enumerates all k! release orders (k<=5) of 40 fixed request shapes, and for a subset every cut of the first reply within its first 12 bytes."),
    "C08": dict(design_ref="6/C08", technique=_T + "planned-request oracle under seeded and enumerated segmentations",
                level_text="well-formed pipelines cut into random chunks, 1-byte chunks and (thorough) every single cut position / cut pairs of fixed pipelines, boundary-related cuts (on request boundaries, fixed distances around them, an earlier request's length into a later one; one read per chunk), read buffers from 16 B to 64 KiB; exactly the "
                           "planned requests must be recognised once each, in order, unaltered; the connection is never closed or answered early",
                level_note=_sim_note),
    "C09": dict(design_ref="6/C09", technique=_T + "fair fault-free schedule with a bounded-liveness oracle in poll rounds and fake time",
                level_text="open-loop clients against delayed backends under a strictly fair schedule; reply i must reach the client within 3 rounds / 1 fake second of the proxy having been handed "
                           "the backend replies of requests 0..i, however many later requests are outstanding; burst variant: 1700-5200 requests pipelined at once with the oldest answered last, "
                           "so more than 1024 completed replies must be flushed behind it",
                level_note=_sim_note + " The bound is evaluated only in rounds where the simulator itself delays nothing (no short I/O, room in the client socket)."),
    "C10": dict(design_ref="6/C10", technique=_T + "per (client,node) arrival-order oracle and SET;GET consequence check",
                level_text="one connection per node, deep pipelines from several clients, interleavings of client reads, write signals (thorough: more than 256 queued tasks per poll), backend replies and "
                           "blocked/short backend writes; request indices must arrive non-decreasing per (client,node) and a pipelined GET served by the master must observe its SET",
                level_note=_sim_note),
    "C11": dict(design_ref="6/C11", technique=_T + "fault enumeration over erroring fragment subsets and error kinds",
                level_text="the model answers chosen fragments with errors from a 14-entry catalogue; thorough enumerates request kind x fragment count <= 4 x erroring subset x error kind; a single-key "
                           "request must get the error verbatim, a split request some error reply and never a success value; later requests and other clients stay served; crash/live-lock detection by the runner",
                level_note=_sim_note),
    "C12": dict(design_ref="6/C12", technique=_T + "grammar-mutated hostile byte streams with witness clients and a redis-server reference parser at the backends",
                level_text="offenders send mutated RESP in seeded segmentation while witnesses run round trips through the same backend connections; proxy must stay alive and not spin, witnesses must be "
                           "served correctly, no backend may receive what redis-server's parser rejects, and a definite protocol error must end in an error reply or a close",
                level_note=_sim_note + " 'Definite protocol error' is decided by a re-implementation of redis-server's processMultibulkBuffer/processInlineBuffer."),
    "C13": dict(design_ref="6/C13", technique=_T + "stale-view topology with MOVED/ASK answered by the model; redirect-count and final-owner oracle",
                level_text="slots handed to another known master (MOVED) and slots in migration with some keys moved (ASK; the importing node insists on ASKING) hit by single and split requests (incl. wide ones: 17-40 fragments each redirected once) at seeded "
                           "pipeline positions while nodes keep reporting the old view; the client must get exactly the final owner's reply in position and no fragment may be redirected more than 16 times",
                level_note=_sim_note),
    "C14": dict(design_ref="6/C14", technique=_T + "topology-history simulation with unusable probe answers; black-box routing oracle anchored on consumed probe replies",
                level_text="histories of cluster descriptions from seeded mutations with per-node lag and interleaved unusable probe answers (plus: a known replica dropping out for 6 s and returning while loading / link down, refresh goroutine parked at yield points, descriptions flapping back); 3 fake seconds after the proxy consumed the first probe reply "
                           "carrying the final description, writes must reach the claiming master, reads only it or its usable replicas, and unclaimed slots must be refused",
                level_note=_sim_note + " Yield-point interleavings of the refresh goroutine (hook points exist in /repo) are not driven yet; helper goroutines run to quiescence between driver actions."),
    "C15": dict(design_ref="6/C15", technique=_T + "fault enumeration over connection-loss phase x pipeline position x request kind; bounded liveness in a fair settle phase",
                level_text="backend connection FIN/RST before the fragment is read / after it is read / after k reply bytes, a peer reset that the proxy's next write meets without a prior hang-up event, node down and up, redirect to an unknown node; a client that starts once every fault has been noticed and every node is back must be served (no proxy error); after the last fault (fair settle "
                           "phase, timeout+10 fake seconds) every request has a reply or its connection was closed by the proxy, data replies are still right, and a later client is served over a new connection",
                level_note=_sim_note),
    "C16": dict(design_ref="6/C16", technique=_T + "stalled/late backends on the fake clock; position-exact reply oracle with deadline-relative lateness rule",
                level_text="fault enumeration over which fragments stall (forever / beyond the timeout) x pipeline position x request kind plus seeded random cases, and a whole node that stops reading and answering behind small send buffers (blocked backend writes); each request must get exactly its "
                           "backend reply or, when the reply was not handed to the proxy before client-send-time+T, the timeout error, in its pipeline position; later requests must still be served",
                level_note=_sim_note + " A reply released before (client send time + T) is in time for sure because the proxy's deadline starts at its later write."),
    "C17": dict(design_ref="6/C17", technique=_T + "served-iff oracle from docs/command.md, Redis' arity table and own-size limit",
                level_text="every documented command name plus unknown names in mixed case, argument counts 0..arity+2, request and reply sizes at L-1, L, L+1 for several limits, alone and inside pipelines "
                           "in one or many segments; a request is served iff supported, arity ok and own size <= L, otherwise the corresponding error and nothing reaches a backend",
                level_note=_sim_note + " Argument counts between 'has a key' and Redis' minimum for variadic commands are unspecified by the statement and accepted either way."),
    "C18": dict(design_ref="6/C18", technique=_T + "whitelist edit histories on real files with real inotify and a sentinel barrier; arbitrary source addresses from the simulated kernel",
                level_text="edit histories (add, remove, replace, enable, disable, duplicate entries, list block or enable line left out) applied in place, torn in two writes, via invalid YAML, delete+recreate or rename-over; after every edit probes from listed, "
                           "unlisted, formerly listed and IPv6 addresses must be admitted iff the whitelist is disabled or the address is in the current file; rejected = closed with zero bytes, nothing forwarded",
                level_note=_sim_note + " File system and inotify are real; determinism comes from the barrier (hook verifhook.Event), not from timing."),
    "C19": dict(design_ref="6/C19", technique="seeded state-machine simulation of the buffers against a byte-queue model (pgregory.net/rapid) + whole-proxy simulation with tiny socket buffers",
                level_text="component level: rapid state machines over ring, linked-list and elastic buffers against a plain []byte queue after every operation, with pool sharing; system level: the C02 "
                           "workload with slow readers, 8-512 byte send buffers and 16-257 byte read buffers so that partial writes, spill and leftovers happen on the real paths",
                level_note=_sim_note + " ReadFrom/WriteTo (gnet API remnants never called by rcproxy, not named in the statement) are explored only with COMP_STREAMS=1 and not held against C19."),
    "C20": dict(design_ref="6/C20", technique=_T + "long read histories; per-replica service-count oracle",
                level_text="3-4 masters with 2-4 healthy replicas, about 300 reads per master mixed with writes (random order, and regular cycles over the masters such as strict rotation or write-then-read pairs); every replica healthy for the whole run must serve at least one of >= 200 reads of its "
                           "master (miss probability < 1e-35 under uniform choice; math/rand is seeded per run), writes only at masters",
                level_note=_sim_note),
}
