HOOK_COMMITS = []

WIP = "not claimed yet: the check for this property is still under construction in this round"
NOT_APPLICABLE = {
    "C05": "pure function of the key bytes: no schedule, clock, fault, I/O or second party can influence it, so deterministic simulation has nothing to explore (its consequence, agreeing with the cluster on the owner, is exercised by C04's oracle through an independent key-slot implementation)",
}
for _p in ["C%02d" % i for i in range(1, 21)]:
    NOT_APPLICABLE.setdefault(_p, WIP)

_sim_note = ("trusted: fidelity of the simulated kernel (sim/kernel.go) to Linux non-blocking socket/epoll/eventfd semantics and of the redis "
             "cluster model (sim/cluster.go) to redis-server for the behaviours used; go1.26.8 testing/synctest plus three small runtime overlay patches; "
             "GOMAXPROCS=1 build equals the shipped build for this property. Sampling, not enumeration, unless stated.")
TEXTS = {
    "C01": dict(design_ref="6/C01", technique="deterministic simulation: seeded schedules over real proxy code, token-relational reply-order oracle",
                level_text="seeded search over pipelines x backend reply orders x segmentation with the real event loop; every client stream must parse into exactly one reply per request, position by position equal to what the backends answered for that request (or the protocol constant for locally answered ones); exploration level because the space is sampled",
                level_note=_sim_note),
    "C09": dict(design_ref="6/C09", technique="deterministic simulation: fair fault-free schedule, bounded-liveness oracle in poll rounds and fake time",
                level_text="open-loop clients against delayed backends under a strictly fair schedule; bounded liveness: reply i reaches the client within 3 rounds / 1 fake second of the proxy having been handed the replies of requests 0..i",
                level_note=_sim_note + " Liveness bound is evaluated only in rounds where the simulator itself delays nothing."),
    "C16": dict(design_ref="6/C16", technique="deterministic simulation with fault injection: stalled/late backends on the fake clock, position-exact reply oracle",
                level_text="fault enumeration over which fragments stall (forever / beyond the timeout) x pipeline position x request kind, plus seeded random cases; each request must get exactly its backend reply or, when the reply was not handed to the proxy before client-send-time+T, the timeout error, in its pipeline position; later requests must still be served",
                level_note=_sim_note + " A reply released before (client send time + T) is in time for sure because the proxy's deadline starts at its later write."),
}
