#!/usr/bin/env python3
"""Determinism self-test: every (profile, seed) is run in several fresh processes, under different GOMAXPROCS
environment values and with all workers busy; the SHA-256 of the full event log (every simulated syscall with its
bytes, every driver action) must be identical.  One of the repetitions of every case is a replay (dump of plan + choice tape, then -sim.replay): replaying must reproduce the
run exactly.  Exit 0 = deterministic, 2 = divergence (infra failure)."""
import concurrent.futures as cf, json, os, subprocess, sys, tempfile, shutil

VERIF = os.path.dirname(os.path.dirname(os.path.abspath(__file__)))
sys.path.insert(0, os.path.join(VERIF, "tools"))
from profiles_cfg import PROPS


def main():
    seeds = int(sys.argv[1]) if len(sys.argv) > 1 else 3
    reps = int(sys.argv[2]) if len(sys.argv) > 2 else 6
    binp = os.path.realpath(os.path.join(VERIF, "build", "simrun.test"))
    profs = []
    for p, cfg in sorted(PROPS.items()):
        if cfg.get("engine") == "component":
            continue
        for tier in ("quick", "thorough"):
            for spec in cfg[tier]["profiles"]:
                pv = (spec["profile"], spec.get("variant", ""))
                if pv not in profs:
                    profs.append(pv)
                for var in spec.get("enumerate", [])[:2]:
                    if (spec["profile"], var) not in profs:
                        profs.append((spec["profile"], var))
    tmp = tempfile.mkdtemp(prefix="det-", dir=os.path.join(VERIF, "build"))
    jobs = []
    for prof, var in profs:
        for s in range(seeds):
            seed = 7000000 + s * 7919
            for r in range(reps):
                jobs.append((prof, var, seed, r))

    def one(j):
        prof, var, seed, r = j
        wd = os.path.join(tmp, "%s-%s-%d-%d" % (prof, var.replace(":", "_"), seed, r))
        os.makedirs(wd)
        env = dict(os.environ, TMPDIR=wd, GOMAXPROCS=["1", "4", "16"][r % 3])
        a = [binp, "-test.run", "^TestSim$", "-test.timeout", "0", "-sim.seed", str(seed), "-sim.profile", prof, "-sim.out", wd + "/r.json"]
        if var:
            a += ["-sim.variant", var]
        if r == 1:
            # one of the repetitions is a replay: dump the run of the seed (plan + choice tape), then execute the replay file;
            # it must give the same event log and the same violations as the seed itself
            subprocess.run(a + ["-sim.dump", wd + "/replay.json", "-sim.out", wd + "/first.json"], cwd=wd, env=env, capture_output=True)
            a = [binp, "-test.run", "^TestSim$", "-test.timeout", "0", "-sim.replay", wd + "/replay.json", "-sim.out", wd + "/r.json"]
        p = subprocess.run(a, cwd=wd, env=env, capture_output=True, text=True, errors="replace")
        h = None
        if os.path.exists(wd + "/r.json"):
            res = json.load(open(wd + "/r.json"))
            h = res["log_hash"] + "|" + ",".join(sorted(v["kind"] for v in res.get("violations") or []))
        else:
            # crashes must be deterministic too: compare the panic line
            err = p.stderr + p.stdout
            i = err.find("panic:")
            h = "exit%d:%s" % (p.returncode, err[i:i + 120].split("\n")[0] if i >= 0 else err[-200:])
        shutil.rmtree(wd, ignore_errors=True)
        return j, h

    by = {}
    with cf.ThreadPoolExecutor(max_workers=16) as ex:
        for j, h in ex.map(one, jobs):
            by.setdefault(j[:3], set()).add(h)
    shutil.rmtree(tmp, ignore_errors=True)
    bad = {k: v for k, v in by.items() if len(v) != 1}
    print("determinism: %d (profile,variant,seed) cases x %d processes each; %d diverged" % (len(by), reps, len(bad)))
    for k, v in list(bad.items())[:10]:
        print("  DIVERGED", k, sorted(v)[:3])
    sys.exit(2 if bad else 0)


if __name__ == "__main__":
    main()
