#!/usr/bin/env python3
"""Regenerate /verif/MANIFEST.json from tools/profiles_cfg.py and tools/manifest_texts.py."""
import json, os, sys
VERIF = os.path.dirname(os.path.dirname(os.path.abspath(__file__)))
sys.path.insert(0, os.path.join(VERIF, "tools"))
from profiles_cfg import PROPS
from manifest_texts import TEXTS, NOT_APPLICABLE, HOOK_COMMITS

ALL = ["C%02d" % i for i in range(1, 21)]
checks = []
for pid in ALL:
    if pid not in PROPS:
        continue
    cfg, t = PROPS[pid], TEXTS[pid]
    checks.append({
        "property_id": pid,
        "quick_cmd": "./check %s --tier quick" % pid,
        "thorough_cmd": "./check %s --tier thorough" % pid,
        "evidence_file": "/verif/evidence/%s.json" % pid,
        "replay_cmd_template": "./check %s --replay {path}" % pid,
        "engine": cfg.get("engine", "simrun"),
        "level_claimed": {"category": cfg["level"], "text": t["level_text"], "design_ref": t["design_ref"]},
        "level_note": t["level_note"],
        "technique": t["technique"],
    })
na = [dict(property_id=p, reason=NOT_APPLICABLE[p]) for p in ALL if p not in PROPS]
missing = [p for p in ALL if p not in PROPS and p not in NOT_APPLICABLE]
assert not missing, missing
m = {
    "version": 1,
    "setup_cmd": "sh tools/setup.sh",
    "hooks": {
        "guard": "verif",
        "enable": "go test -c -tags verif -overlay build/overlay/overlay.json (go1.26.8, GOTOOLCHAIN=local); module replace rcproxy => /repo, golang.org/x/sys => build/xsys",
        "baseline_off_cmd": "cd /repo && go test -mod=mod -json -vet=off -count=1 -timeout 25m ./...",
        "source_commits": HOOK_COMMITS,
        "add_only": True,
    },
    "engines": [
        {"name": "simrun", "path": "/verif/sim", "serves_properties": [c["property_id"] for c in checks if c["engine"] == "simrun"],
         "kind_free_text": "deterministic whole-proxy simulation: unmodified rcproxy inside testing/synctest over a simulated kernel (x/sys shim), simulated redis cluster and clients, seeded scheduler with choice tape, one OS process per run"},
        {"name": "component", "path": "/verif/comp", "serves_properties": [c["property_id"] for c in checks if c["engine"] == "component"],
         "kind_free_text": "in-process seeded state-machine simulation of the buffer packages with faulty readers/writers (pgregory.net/rapid as choice source and shrinker)"},
    ],
    "checks": checks,
    "not_applicable": na,
    "notes": "See DESIGN.md. Known findings and fixed defects: known_findings.txt. Exit 2 of a check = build/infra/insufficient reach, never a violation.",
}
json.dump(m, open(os.path.join(VERIF, "MANIFEST.json"), "w"), indent=1)
print("MANIFEST.json: %d checks, %d not applicable" % (len(checks), len(na)))
