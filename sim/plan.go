package simrun

// Plans: everything a run does that is not a run-time scheduling choice. A plan is generated from the seed by a
// profile, is fully JSON-serialisable, and is what the minimiser edits.

import (
	"fmt"
	"strings"
)

type ReqPlan struct {
	Raw    []byte   `json:"raw"`
	Class  string   `json:"class"` // single | split | local | reject | hostile
	Cmd    string   `json:"cmd"`   // lower-case command name
	Keys   []string `json:"keys,omitempty"`
	Vals   []string `json:"vals,omitempty"` // mset values
	Tok    string   `json:"tok"`            // c<i>r<j>
	Expect []byte   `json:"expect,omitempty"`
	Quit   bool     `json:"quit,omitempty"`
	// byte-exact copies of Keys / Vals for replay files: JSON strings cannot carry bytes that are not valid UTF-8 (binary keys),
	// []byte fields are base64. Filled by Plan.Seal before a plan is written, restored by Plan.Unseal after it is read.
	KeysB [][]byte `json:"keys_b,omitempty"`
	ValsB [][]byte `json:"vals_b,omitempty"`
}

type ClientPlan struct {
	Addr              string    `json:"addr"`
	Reqs              []ReqPlan `json:"reqs"`
	Mode              string    `json:"mode"` // pipeline | closed | open
	GapMs             int       `json:"gap_ms,omitempty"`
	Window            int       `json:"window,omitempty"` // mode closed: up to this many requests outstanding (0/1 = strictly closed loop)
	StartStep         int       `json:"start_step,omitempty"`
	StartAfterClient  int       `json:"start_after_client,omitempty"` // 1-based: start when that client is finished/closed
	StartAfterEvents  bool      `json:"start_after_events,omitempty"` // start once every planned event has fired
	StartAfterMs      int       `json:"start_after_ms,omitempty"`     // start this many fake ms after the workload began
	Slow              bool      `json:"slow,omitempty"`
	NeverRead         bool      `json:"never_read,omitempty"`
	TailAfterAnswered int       `json:"tail_after_answered,omitempty"` // the last N requests are only sent once the backends have answered all earlier ones
	ReadAfterMs       int       `json:"read_after_ms,omitempty"` // the client does not read for this long after connecting (its socket fills), then reads
	CloseAfterSent    int       `json:"close_after_sent"`    // bytes; -1 never
	CloseAfterReplies int       `json:"close_after_replies"` // -1 never
	CloseRst          bool      `json:"close_rst,omitempty"`
	Chunks            []int     `json:"chunks,omitempty"` // fixed segmentation (C08); empty = scheduler decides
	PollAfterSend     bool      `json:"poll_after_send,omitempty"` // grant a poll right after each send, so that every chunk is a read of its own
	Witness           bool      `json:"witness,omitempty"`
	Phase             int       `json:"phase,omitempty"`   // profile-defined grouping (C18: whitelist phase the probe belongs to)
	Note              string    `json:"note,omitempty"`
	Hostile           bool      `json:"hostile,omitempty"` // sends arbitrary bytes: its replies are not position-checked
	SendAfterAccepts  int       `json:"send_after_accepts,omitempty"` // do not send before the proxy has accepted this many connections (crowd barrier)
}

type ProxyCfg struct {
	BufCap        int    `json:"buf_cap"`
	MsgMax        int    `json:"msg_max"`
	ServerConns   int    `json:"server_conns"`
	TimeoutMs     int    `json:"timeout_ms"`
	Password      string `json:"password,omitempty"`
	DisableSlave  bool   `json:"disable_slave,omitempty"`
	Preconnect    bool   `json:"preconnect,omitempty"`
	ConnTimeoutMs int    `json:"conn_timeout_ms,omitempty"`
	RetryMs       int    `json:"retry_ms,omitempty"`
	SeedAll       bool   `json:"seed_all,omitempty"`     // the servers option lists replicas too (their pools exist before their role is known)
	SeedServers   int    `json:"seed_servers,omitempty"` // how many node addresses are in the servers option (0 = all masters)
}

type SchedCfg struct {
	WSend    int  `json:"w_send"`
	WRecv    int  `json:"w_recv"`
	WConsume int  `json:"w_consume"`
	WRelease int  `json:"w_release"`
	WPoll    int  `json:"w_poll"`
	WTime    int  `json:"w_time"`
	MaxSteps int  `json:"max_steps"`
	Fair     bool `json:"fair,omitempty"`      // no randomisation at all: round-robin (used for liveness profiles)
	ChunkPct int  `json:"chunk_pct,omitempty"` // probability that a send/release/recv moves a partial amount
	SettleS  int  `json:"settle_s,omitempty"`  // fake seconds of fair settle phase
	// AlignedRelease: backends hand out their reply bytes in pieces related to reply boundaries and to the lengths of earlier
	// replies on the same connection (end of a reply; end of a reply plus as many bytes of the next one as an earlier reply was
	// long; ...), each piece being a read of its own for the proxy
	AlignedRelease bool `json:"aligned_release,omitempty"`
}

type When struct {
	Step    int    `json:"step,omitempty"`
	Token   string `json:"token,omitempty"` // request token (c<i>r<j>) the trigger is about
	Phase   string `json:"phase,omitempty"` // queued | written | consumed | partial | replied
	Client  int    `json:"client,omitempty"`
	Replies int    `json:"replies,omitempty"`
	AfterMs int    `json:"after_ms,omitempty"` // fake ms after workload start
}

type Event struct {
	Kind  string   `json:"kind"` // kill-conn | node-down | node-up | set-topo | set-view | probe-script | migrate | wl-edit
	When  When     `json:"when"`
	Node  string   `json:"node,omitempty"`
	Rst   bool     `json:"rst,omitempty"`
	Topo  int      `json:"topo,omitempty"`
	Slot  int      `json:"slot,omitempty"`
	To    string   `json:"to,omitempty"`
	Data  []string `json:"data,omitempty"`
	DataB [][]byte `json:"data_b,omitempty"`
	Fired bool     `json:"-"`
}

type Plan struct {
	Profile  string       `json:"profile"`
	Prop     string       `json:"prop"`
	Seed     uint64       `json:"seed"`
	Variant  string       `json:"variant,omitempty"`
	Proxy    ProxyCfg     `json:"proxy"`
	Kernel   KernelCfg    `json:"kernel"`
	Sched    SchedCfg     `json:"sched"`
	Topos    []Topology   `json:"topos"` // Topos[0] is the initial truth
	Prepop   [][2]string  `json:"prepop,omitempty"`
	PrepopB  [][2][]byte  `json:"prepop_b,omitempty"`
	Clients  []ClientPlan `json:"clients"`
	Events   []Event      `json:"events,omitempty"`
	Faulty   bool         `json:"faulty,omitempty"` // connection-level faults are injected: oracles relax narrowly
	Whitelist *WLPlan     `json:"whitelist,omitempty"`
	Hist     []HistStep   `json:"hist,omitempty"`
	Notes    []string     `json:"notes,omitempty"`
}

// Seal fills the byte-exact shadow fields (see ReqPlan.KeysB) before the plan is serialised.
func (p *Plan) Seal() {
	for ci := range p.Clients {
		for ri := range p.Clients[ci].Reqs {
			r := &p.Clients[ci].Reqs[ri]
			r.KeysB, r.ValsB = nil, nil
			for _, k := range r.Keys {
				r.KeysB = append(r.KeysB, []byte(k))
			}
			for _, v := range r.Vals {
				r.ValsB = append(r.ValsB, []byte(v))
			}
		}
	}
	p.PrepopB = nil
	for _, kv := range p.Prepop {
		p.PrepopB = append(p.PrepopB, [2][]byte{[]byte(kv[0]), []byte(kv[1])})
	}
	for ei := range p.Events {
		e := &p.Events[ei]
		e.DataB = nil
		for _, x := range e.Data {
			e.DataB = append(e.DataB, []byte(x))
		}
	}
}

// Unseal restores Keys / Vals / Prepop / Event.Data from the byte-exact shadow fields of a plan read from a replay file.
func (p *Plan) Unseal() {
	for ci := range p.Clients {
		for ri := range p.Clients[ci].Reqs {
			r := &p.Clients[ci].Reqs[ri]
			if len(r.KeysB) == len(r.Keys) {
				for i := range r.KeysB {
					r.Keys[i] = string(r.KeysB[i])
				}
			}
			if len(r.ValsB) == len(r.Vals) {
				for i := range r.ValsB {
					r.Vals[i] = string(r.ValsB[i])
				}
			}
		}
	}
	if len(p.PrepopB) == len(p.Prepop) {
		for i := range p.PrepopB {
			p.Prepop[i] = [2]string{string(p.PrepopB[i][0]), string(p.PrepopB[i][1])}
		}
	}
	for ei := range p.Events {
		e := &p.Events[ei]
		if len(e.DataB) == len(e.Data) {
			for i := range e.DataB {
				e.Data[i] = string(e.DataB[i])
			}
		}
	}
}

type WLPlan struct {
	Initial WLFile   `json:"initial"`
	Edits   []WLEdit `json:"edits"`
}
type WLFile struct {
	Enable bool     `json:"enable"`
	IPs    []string `json:"ips"` // may contain duplicates (legal YAML; the admitted set is the set of distinct entries)
	// the key is left out of the file altogether (then Enable must be false resp. IPs empty: YAML's zero values)
	OmitEnable bool `json:"omit_enable,omitempty"`
	OmitList   bool `json:"omit_list,omitempty"`
}
type WLEdit struct {
	Kind string `json:"kind"` // write | truncate-write | invalid-then-valid | delete-recreate | rename-over
	File WLFile `json:"file"`
}

// ---- generator helpers ----

type Gen struct {
	R    *Rng
	Plan *Plan
}

func NewGen(seed uint64, profile string) *Gen {
	return &Gen{R: NewRng(seed).Derive("plan:" + profile), Plan: &Plan{Profile: profile, Seed: seed}}
}

// StdTopology: m masters with r replicas each, slots split into contiguous or fragmented ranges.
func (g *Gen) StdTopology(m, r int, fragmented bool) Topology {
	var t Topology
	type rng struct{ a, b int }
	var ranges []rng
	if !fragmented {
		per := 16384 / m
		for i := 0; i < m; i++ {
			a, b := i*per, (i+1)*per-1
			if i == m-1 {
				b = 16383
			}
			ranges = append(ranges, rng{a, b})
		}
	} else {
		// cut the slot space into m*4..m*8 pieces and deal them out round-robin from a random offset
		pieces := m * g.R.Range(3, 8)
		cuts := map[int]bool{}
		for len(cuts) < pieces-1 {
			cuts[g.R.Range(1, 16383)] = true
		}
		prev := 0
		for s := 1; s <= 16384; s++ {
			if s == 16384 || cuts[s] {
				ranges = append(ranges, rng{prev, s - 1})
				prev = s
			}
		}
	}
	for i := 0; i < m; i++ {
		id := fmt.Sprintf("%040x", 0xa000+i)
		n := NodeDesc{ID: id, Addr: fmt.Sprintf("10.0.%d.1:7000", i), Master: true}
		t.Nodes = append(t.Nodes, n)
	}
	for i, rg := range ranges {
		n := &t.Nodes[i%m]
		n.Slots = append(n.Slots, [2]int{rg.a, rg.b})
	}
	for i := 0; i < m; i++ {
		for j := 0; j < r; j++ {
			id := fmt.Sprintf("%040x", 0xb000+i*16+j)
			t.Nodes = append(t.Nodes, NodeDesc{ID: id, Addr: fmt.Sprintf("10.0.%d.%d:7000", i, j+2), MasterID: t.Nodes[i].ID})
		}
	}
	if g.R.Pct(50) {
		t.Shuffle = g.R.Next() | 1 // the order of the lines of CLUSTER NODES is arbitrary
	}
	return t
}

var tagForSlot map[int]string

// KeyInSlot returns a hash tag body that maps to the given slot (precomputed lazily by brute force).
func TagForSlot(slot int) string {
	if tagForSlot == nil {
		tagForSlot = map[int]string{}
		for i := 0; len(tagForSlot) < 16384; i++ {
			s := fmt.Sprintf("t%x", i)
			sl := RefSlot([]byte(s))
			if _, ok := tagForSlot[sl]; !ok {
				tagForSlot[sl] = s
			}
		}
	}
	return tagForSlot[slot]
}

// Key builds a key carrying the request token; if slot>=0 it is pinned to that slot with a hash tag.
func Key(tok string, k int, slot int, suffix string) string {
	base := fmt.Sprintf("%sk%d%s", tok, k, suffix)
	if slot >= 0 {
		return "{" + TagForSlot(slot) + "}" + base
	}
	return base
}

func Tok(ci, ri int) string { return fmt.Sprintf("c%dr%d", ci, ri) }

func (g *Gen) CaseMix(cmd string) string {
	switch g.R.Intn(3) {
	case 0:
		return strings.ToLower(cmd)
	case 1:
		return strings.ToUpper(cmd)
	}
	b := []byte(strings.ToLower(cmd))
	for i := range b {
		if g.R.Pct(50) && b[i] >= 'a' && b[i] <= 'z' {
			b[i] -= 32
		}
	}
	return string(b)
}

// Single builds a single-key forwarded request.
func (g *Gen) Single(tok string, cmd string, key string, extra ...string) ReqPlan {
	args := append([]string{g.CaseMix(cmd), key}, extra...)
	return ReqPlan{Raw: EncodeCommandS(args...), Class: "single", Cmd: strings.ToLower(cmd), Keys: []string{key}, Tok: tok}
}

func (g *Gen) Split(tok string, cmd string, keys []string, vals []string) ReqPlan {
	args := []string{g.CaseMix(cmd)}
	for i, k := range keys {
		args = append(args, k)
		if vals != nil {
			args = append(args, vals[i])
		}
	}
	return ReqPlan{Raw: EncodeCommandS(args...), Class: "split", Cmd: strings.ToLower(cmd), Keys: keys, Vals: vals, Tok: tok}
}

func (g *Gen) Local(tok string, cmd string, expect string, args ...string) ReqPlan {
	a := append([]string{g.CaseMix(cmd)}, args...)
	return ReqPlan{Raw: EncodeCommandS(a...), Class: "local", Cmd: strings.ToLower(cmd), Tok: tok, Expect: []byte(expect), Quit: strings.ToLower(cmd) == "quit"}
}

func (g *Gen) Reject(tok string, expect string, args ...string) ReqPlan {
	return ReqPlan{Raw: EncodeCommandS(args...), Class: "reject", Cmd: strings.ToLower(args[0]), Tok: tok, Expect: []byte(expect)}
}

// proxy constants the statement names (checked as observable protocol, not imported from rcproxy)
const (
	RPong        = "+PONG\r\n"
	ROK          = "+OK\r\n"
	RUnknownCmd  = "-ERR unknown command\r\n"
	RWrongArgs   = "-ERR wrong number of arguments\r\n"
	RReqTooLarge = "-ERR req msg length too large\r\n"
	RRspTooLarge = "-ERR rsp msg length too large\r\n"
	RTimeout     = "-ERR proxy request timeout\r\n"
	RAuthNoPw    = "-ERR Client sent AUTH, but no password is set\r\n"
	RAuthBad     = "-ERR invalid password\r\n"
	RUnknownSlot = "-ERR unknown slot\r\n"
)

func DefaultSched() SchedCfg {
	return SchedCfg{WSend: 4, WRecv: 3, WConsume: 4, WRelease: 4, WPoll: 6, WTime: 1, MaxSteps: 4000, ChunkPct: 30, SettleS: 8}
}

func DefaultProxy() ProxyCfg {
	return ProxyCfg{BufCap: 64 * 1024, MsgMax: 6 * 1024 * 1024, ServerConns: 1, ConnTimeoutMs: 200, RetryMs: 500}
}
