package simrun

// AuxConn is the simulator-backed blocking net.Conn handed to rcproxy's blocking redis client
// (core/pkg/redis, used for INFO by the refresh goroutine and PING by the pool monitors) through the
// net.Dialer.DialContext overlay hook. It blocks on channels created inside the synctest bubble, so a
// goroutine waiting on it is durably blocked and deadlines run on the fake clock.

import (
	"net"
	"os"
	"sync"
	"time"
)

type AuxConn struct {
	mu       sync.Mutex
	node     string
	rbuf     []byte
	wbuf     []byte
	closed   bool
	peerEOF  bool
	notify   chan struct{}
	rdl, wdl time.Time
	handler  func(c *AuxConn)
	authed   bool
	laddr    *net.TCPAddr
	raddr    *net.TCPAddr
}

func newAuxConn(node string, handler func(c *AuxConn)) *AuxConn {
	host, _, _ := net.SplitHostPort(node)
	return &AuxConn{node: node, notify: make(chan struct{}, 1), handler: handler,
		laddr: &net.TCPAddr{IP: net.ParseIP("10.9.9.9"), Port: 50000},
		raddr: &net.TCPAddr{IP: net.ParseIP(host), Port: 7000}}
}

type timeoutErr struct{}

func (timeoutErr) Error() string   { return "i/o timeout" }
func (timeoutErr) Timeout() bool   { return true }
func (timeoutErr) Temporary() bool { return true }
func (timeoutErr) Unwrap() error   { return os.ErrDeadlineExceeded }

func (c *AuxConn) Read(p []byte) (int, error) {
	for {
		c.mu.Lock()
		if len(c.rbuf) > 0 {
			n := copy(p, c.rbuf)
			c.rbuf = c.rbuf[n:]
			c.mu.Unlock()
			return n, nil
		}
		if c.closed {
			c.mu.Unlock()
			return 0, net.ErrClosed
		}
		if c.peerEOF {
			c.mu.Unlock()
			return 0, os.ErrClosed
		}
		dl := c.rdl
		c.mu.Unlock()
		if dl.IsZero() {
			<-c.notify
			continue
		}
		d := time.Until(dl)
		if d <= 0 {
			return 0, &net.OpError{Op: "read", Net: "tcp", Err: timeoutErr{}}
		}
		t := time.NewTimer(d)
		select {
		case <-c.notify:
			t.Stop()
		case <-t.C:
			return 0, &net.OpError{Op: "read", Net: "tcp", Err: timeoutErr{}}
		}
	}
}

func (c *AuxConn) Write(p []byte) (int, error) {
	c.mu.Lock()
	if c.closed {
		c.mu.Unlock()
		return 0, net.ErrClosed
	}
	c.wbuf = append(c.wbuf, p...)
	c.mu.Unlock()
	if c.handler != nil {
		c.handler(c)
	}
	return len(p), nil
}

// push appends bytes for the client to read (called by the model).
func (c *AuxConn) push(b []byte) {
	c.mu.Lock()
	c.rbuf = append(c.rbuf, b...)
	c.mu.Unlock()
	select {
	case c.notify <- struct{}{}:
	default:
	}
}

func (c *AuxConn) Close() error {
	c.mu.Lock()
	c.closed = true
	c.mu.Unlock()
	select {
	case c.notify <- struct{}{}:
	default:
	}
	return nil
}

func (c *AuxConn) LocalAddr() net.Addr  { return c.laddr }
func (c *AuxConn) RemoteAddr() net.Addr { return c.raddr }
func (c *AuxConn) SetDeadline(t time.Time) error {
	c.mu.Lock()
	c.rdl, c.wdl = t, t
	c.mu.Unlock()
	return nil
}
func (c *AuxConn) SetReadDeadline(t time.Time) error {
	c.mu.Lock()
	c.rdl = t
	c.mu.Unlock()
	return nil
}
func (c *AuxConn) SetWriteDeadline(t time.Time) error {
	c.mu.Lock()
	c.wdl = t
	c.mu.Unlock()
	return nil
}
