package simrun

import (
	"fmt"
	"strconv"
	"strings"
	"time"
)

func variantNum(v, prefix string) (int, bool) {
	if !strings.HasPrefix(v, prefix) {
		return 0, false
	}
	n, err := strconv.Atoi(v[len(prefix):])
	return n, err == nil
}

func (g *Gen) cleanKernel() {
	g.Plan.Kernel = KernelCfg{ClientSndCap: 1 << 20, BackendSndCap: 1 << 20}
}

// ---- C09: completed replies are delivered promptly, not withheld by later requests ----

func init() {
	register(&Profile{Name: "C09", Prop: "C09", Gen: genC09, Run: runC09})
}

func genC09(g *Gen) {
	p := g.Plan
	p.Topos = []Topology{g.StdTopology(g.R.Range(3, 4), 0, false)}
	p.Proxy.DisableSlave = true
	p.Proxy.BufCap = 65536
	p.Proxy.ServerConns = g.R.Range(1, 2)
	g.cleanKernel()
	p.Sched.Fair = true
	lat := g.R.Pick([]string{"5", "20", "40"})
	L, _ := strconv.Atoi(lat)
	if p.Variant == "slowreader" {
		// an open-loop client that does not read for a while: its socket fills, replies pile up in the proxy's outbound buffer and
		// behind it in the request queue; once it reads again everything that is complete must still arrive
		p.Kernel.ClientSndCap = []int{512, 4096, 16384}[g.R.Intn(3)]
		cp := ClientPlan{Addr: clientAddr(0), Mode: "open", GapMs: g.R.Range(1, 2), CloseAfterSent: -1, CloseAfterReplies: -1, ReadAfterMs: g.R.Range(150, 600)}
		n := g.R.Range(120, 400)
		for ri := 0; ri < n; ri++ {
			tok := Tok(0, ri)
			sfx := fmt.Sprintf("~D%s~S5~L%d", lat, g.R.Range(200, 3000))
			if g.R.Pct(15) {
				cp.Reqs = append(cp.Reqs, g.Local(tok, "ping", RPong))
			} else {
				cp.Reqs = append(cp.Reqs, g.Single(tok, "hget", Key(tok, 0, -1, sfx), "f")) // scripted reply: a bulk of the requested size
			}
		}
		p.Clients = append(p.Clients, cp)
		p.Notes = append(p.Notes, fmt.Sprintf("slow reader: silent for %d ms, send buffer %d B, %d requests", cp.ReadAfterMs, p.Kernel.ClientSndCap, n))
		return
	}
	if p.Variant == "burst" {
		// one client pipelines a very deep burst without reading first; a few requests (always including the oldest) are
		// answered late, so that thousands of completed replies pile up behind an incomplete head and must all be flushed
		// when it completes (iovec limits, chunked flushes).
		cp := ClientPlan{Addr: clientAddr(0), Mode: "pipeline", CloseAfterSent: -1, CloseAfterReplies: -1}
		n := []int{1700, 2100, 2600, 3100, 3300, 4200, 5200}[g.R.Intn(7)] + g.R.Intn(40)
		slow := map[int]bool{0: true}
		for i := g.R.Intn(3); i > 0; i-- {
			slow[g.R.Intn(n-1100)] = true
		}
		// "lonely" mode: the late requests are the only traffic of their master, so nothing is queued behind them on that
		// backend connection and the LAST completion of the whole burst has more than a thousand finished replies behind it
		lonely := g.R.Pct(60)
		t := &p.Topos[0]
		slotOn := func(first bool) int {
			for {
				s := g.R.Intn(16384)
				if (t.Owner(s).Addr == t.Nodes[0].Addr) == first {
					return s
				}
			}
		}
		for ri := 0; ri < n; ri++ {
			tok := Tok(0, ri)
			sfx := ""
			if slow[ri] {
				sfx = "~D" + g.R.Pick([]string{"60", "150", "400"})
			}
			slot := -1
			if lonely {
				slot = slotOn(slow[ri])
			}
			cp.Reqs = append(cp.Reqs, g.Single(tok, g.R.Pick([]string{"get", "incr", "llen"}), Key(tok, 0, slot, sfx)))
		}
		p.Clients = append(p.Clients, cp)
		p.Notes = append(p.Notes, fmt.Sprintf("burst of %d pipelined requests, %d answered late", n, len(slow)))
		return
	}
	nc := g.R.Range(1, 2)
	for ci := 0; ci < nc; ci++ {
		// gap below, equal to, above the backend latency
		gap := []int{1, L / 2, L, L * 2}[g.R.Intn(4)]
		if gap < 1 {
			gap = 1
		}
		cp := ClientPlan{Addr: clientAddr(ci), Mode: "open", GapMs: gap, CloseAfterSent: -1, CloseAfterReplies: -1}
		n := g.R.Range(15, 60)
		for ri := 0; ri < n; ri++ {
			tok := Tok(ci, ri)
			sfx := "~D" + lat
			if p.Variant == "trickle" && g.R.Pct(30) {
				// this reply trickles: a few bytes arrive together with the end of the previous reply, the rest much later
				sfx += "~P" + g.R.Pick([]string{"40", "120", "400"})
			}
			if g.R.Pct(15) {
				keys := []string{Key(tok, 0, g.R.Intn(16384), sfx), Key(tok, 1, g.R.Intn(16384), "~D"+lat)}
				cp.Reqs = append(cp.Reqs, g.Split(tok, "mget", keys, nil))
			} else {
				cp.Reqs = append(cp.Reqs, g.Single(tok, g.R.Pick([]string{"get", "incr", "llen"}), Key(tok, 0, -1, sfx)))
			}
		}
		p.Clients = append(p.Clients, cp)
	}
	p.Notes = append(p.Notes, fmt.Sprintf("backend latency %dms", L))
}

func runC09(d *Driver, res *Result) {
	d.boot()
	res.Converged = d.converge(15 * time.Second)
	if !res.Converged {
		res.Error = "proxy did not adopt the initial topology"
		return
	}
	d.fairRun(6000, func() bool { return d.allDone() })
	// in this profile the simulator never delays a flush: no short reads/writes, the client socket always has room, every
	// round polls. doneRound(i) = round in which the backend replies of requests 0..i had all been handed to the proxy.
	maxLag, maxLagMs := 0, int64(0)
	outstandingWhenDone := 0
	for _, c := range d.Clients {
		doneRound := 0
		var doneAt time.Duration
		for i := range c.Plan.Reqs {
			rq := &c.Plan.Reqs[i]
			complete := true
			for _, r := range d.recsFor(rq.Tok) {
				if !r.Released {
					complete = false
					continue
				}
				if r.RelRound > doneRound {
					doneRound = r.RelRound
					doneAt = r.RelAt
				}
			}
			if !complete || len(d.recsFor(rq.Tok)) == 0 {
				break
			}
			// were later requests outstanding at that moment? (that is the interesting situation)
			if i+1 < len(c.Plan.Reqs) && c.SentAt[i+1] > 0 && c.SentAt[i+1] <= doneAt {
				outstandingWhenDone++
			}
			if i >= len(c.Replies) {
				d.violate("C09", "reply-withheld", map[string]string{"how": "never-delivered"},
					"client %d: backends answered requests 0..%d by round %d but reply %d never reached the client (%d of %d replies delivered; later requests were outstanding)",
					c.Idx, i, doneRound, i, len(c.Replies), len(c.Plan.Reqs))
				break
			}
			if c.Plan.ReadAfterMs > 0 {
				continue // the client itself delays delivery: only "never delivered" is judged in this variant
			}
			lag := c.ReplyRound[i] - doneRound
			lagMs := (c.ReplyAt[i] - doneAt).Milliseconds()
			if lag > maxLag {
				maxLag = lag
			}
			if lagMs > maxLagMs {
				maxLagMs = lagMs
			}
			if lag > 3 || lagMs > 1000 {
				d.violate("C09", "reply-withheld", map[string]string{"how": "late"},
					"client %d: backends answered requests 0..%d in round %d (t=%v) but reply %d reached the client only in round %d (t=%v): lag %d rounds / %d ms while later requests were outstanding",
					c.Idx, i, doneRound, doneAt, i, c.ReplyRound[i], c.ReplyAt[i], lag, lagMs)
				break
			}
		}
	}
	if d.P.Variant == "burst" && len(d.Clients) == 1 {
		// reach: how many later requests were already complete when the oldest one completed
		c := d.Clients[0]
		headRound := 0
		for _, r := range d.recsFor(c.Plan.Reqs[0].Tok) {
			if r.RelRound > headRound {
				headRound = r.RelRound
			}
		}
		byTok := map[string]int{}
		for _, r := range d.C.Log {
			if r.Kind == "data" && r.Released && r.RelRound < headRound && len(r.Tokens) > 0 {
				byTok[r.Tokens[0]]++
			}
		}
		d.Counters["c09_burst_max_complete_behind_head"] = len(byTok)
		if len(byTok) > 1024 {
			d.Counters["c09_burst_over_1024_behind_head"] = 1
		}
	}
	d.Counters["c09_blocked_client_writes"] = d.K.Stats.EAGAINWrite
	d.StdReplyCheck("C09", Relax{AllowMissing: true})
	res.Nontrivial = outstandingWhenDone > 0
	res.Extra = map[string]string{"max_lag_rounds": fmt.Sprint(maxLag), "max_lag_ms": fmt.Sprint(maxLagMs)}
	d.Counters["c09_completed_while_later_outstanding"] = outstandingWhenDone
	res.Sample = fmt.Sprintf("%d open-loop clients (gaps %s ms), %d requests, %s; max lag %d rounds/%d ms", len(d.Clients), gaps(d), totalReqs(d), strings.Join(d.P.Notes, ","), maxLag, maxLagMs)
}

func gaps(d *Driver) string {
	var s []string
	for _, c := range d.Clients {
		s = append(s, fmt.Sprint(c.Plan.GapMs))
	}
	return strings.Join(s, "/")
}

// ---- C16: a timed-out request gets one timeout error, in position, and the connection stays usable ----

func init() {
	register(&Profile{Name: "C16", Prop: "C16", Gen: genC16, Check: checkC16})
}

func genC16(g *Gen) {
	p := g.Plan
	p.Topos = []Topology{g.StdTopology(g.R.Range(3, 4), g.R.Range(0, 1), false)}
	T := g.R.Range(50, 800)
	p.Proxy.TimeoutMs = T
	p.Proxy.DisableSlave = g.R.Pct(50)
	p.Proxy.ServerConns = g.R.Range(1, 2)
	p.Proxy.BufCap = 65536
	g.cleanKernel()
	p.Sched.SettleS = T/1000 + 6
	p.Sched.WTime = 2
	mark := func(mode int) string {
		if mode == 0 {
			return "~T"
		}
		return fmt.Sprintf("~D%d", T+g.R.Range(300, 1500))
	}
	if n, ok := variantNum(p.Variant, "enum:"); ok {
		// systematic: pipeline length L<=5, stalled position(s), request kind, forever|late
		// n encodes: first stalled pos a, second stalled pos b (b==a: single stall), kind, mode
		L := 1 + n%5
		n /= 5
		a := n % L
		n /= 5
		b := n % L
		n /= 5
		kind := n % 3
		n /= 3
		mode := n % 2
		cp := ClientPlan{Addr: clientAddr(0), Mode: []string{"pipeline", "closed"}[g.R.Intn(2)], CloseAfterSent: -1, CloseAfterReplies: -1}
		for ri := 0; ri < L; ri++ {
			tok := Tok(0, ri)
			suffix := ""
			if ri == a || ri == b {
				suffix = mark(mode)
			}
			cp.Reqs = append(cp.Reqs, g.c16req(tok, kind, suffix))
		}
		// requests sent after the timeout fired must still be served
		cp.Reqs = append(cp.Reqs, g.c16req(Tok(0, L), 0, ""))
		p.Clients = append(p.Clients, cp)
		return
	}
	if p.Variant == "hung" {
		// a whole node stops (SIGSTOP, swap storm): it keeps its connections but neither reads nor answers. With a small send buffer
		// the proxy's writes to it block (EAGAIN, fragments parked in the outbound buffer); every request for its slots must still
		// get its error in position and everything else must be served.
		p.Proxy.DisableSlave = true
		p.Topos[0] = g.StdTopology(g.R.Range(3, 4), 0, false)
		p.Kernel.BackendSndCap = []int{512, 4096, 1 << 20}[g.R.Intn(3)]
		hung := &p.Topos[0].Nodes[g.R.Intn(len(p.Topos[0].Nodes))]
		p.Events = append(p.Events, Event{Kind: "hang-node", When: When{Step: 1}, Node: hung.Addr})
		p.Sched.SettleS = T/1000 + 4
		nc := g.R.Range(1, 3)
		for ci := 0; ci < nc; ci++ {
			cp := ClientPlan{Addr: clientAddr(ci), Mode: g.R.Pick([]string{"pipeline", "closed", "pipeline"}), CloseAfterSent: -1, CloseAfterReplies: -1, StartStep: 3 + g.R.Intn(10)}
			for ri, n := 0, g.R.Range(2, 24); ri < n; ri++ {
				tok := Tok(ci, ri)
				slot := g.R.Intn(16384)
				if g.R.Pct(50) {
					r := hung.Slots[0]
					slot = g.R.Range(r[0], r[1])
				}
				switch g.R.Intn(4) {
				case 0:
					cp.Reqs = append(cp.Reqs, g.Single(tok, "get", Key(tok, 0, slot, "")))
				case 1:
					keys := []string{Key(tok, 0, slot, ""), Key(tok, 1, g.R.Intn(16384), "")}
					cp.Reqs = append(cp.Reqs, g.Split(tok, "mget", keys, nil))
				default:
					cp.Reqs = append(cp.Reqs, g.Single(tok, "set", Key(tok, 0, slot, ""), strings.Repeat("x", g.R.Range(200, 900))))
				}
			}
			p.Clients = append(p.Clients, cp)
		}
		return
	}
	nc := g.R.Range(1, 2)
	for ci := 0; ci < nc; ci++ {
		cp := ClientPlan{Addr: clientAddr(ci), Mode: g.R.Pick([]string{"pipeline", "closed", "pipeline"}), CloseAfterSent: -1, CloseAfterReplies: -1, StartStep: g.R.Intn(10)}
		n := g.R.Range(1, 10)
		for ri := 0; ri < n; ri++ {
			suffix := ""
			if g.R.Pct(30) {
				suffix = mark(g.R.Intn(2))
			}
			cp.Reqs = append(cp.Reqs, g.c16req(Tok(ci, ri), g.R.Intn(3), suffix))
		}
		p.Clients = append(p.Clients, cp)
	}
}

func (g *Gen) c16req(tok string, kind int, suffix string) ReqPlan {
	switch kind {
	case 0:
		cmd := g.R.Pick([]string{"get", "set", "incr"})
		return g.Single(tok, cmd, Key(tok, 0, -1, suffix), argsFor(g, cmd, "v"+tok)...)
	default:
		nk := kind + 1
		var keys, vals []string
		stalled := g.R.Intn(nk)
		for i := 0; i < nk; i++ {
			sfx := ""
			if i == stalled {
				sfx = suffix
			}
			keys = append(keys, Key(tok, i, (g.R.Intn(16384)), sfx))
		}
		cmd := g.R.Pick([]string{"mget", "del", "mset"})
		if cmd == "mset" {
			for i := range keys {
				vals = append(vals, fmt.Sprintf("v%d", i))
			}
		}
		return g.Split(tok, cmd, keys, vals)
	}
}

func checkC16(d *Driver, res *Result) {
	d.StdReplyCheck("C16", Relax{})
	stalled := 0
	for _, r := range d.C.Log {
		if r.Kind == "data" && r.HoldFor != 0 {
			stalled++
		}
	}
	if d.P.Variant == "hung" {
		for _, c := range d.Clients {
			for i := range c.Plan.Reqs {
				for _, k := range c.Plan.Reqs[i].Keys {
					if d.ownerHung(k) {
						stalled++
						break
					}
				}
			}
		}
		d.Counters["c16_requests_for_hung_node"] = stalled
		d.Counters["c16_blocked_backend_writes"] = d.K.Stats.EAGAINWrite
	}
	res.Nontrivial = stalled > 0
	d.Counters["c16_stalled_fragments"] = stalled
	res.Sample = fmt.Sprintf("timeout %dms, %d clients, %d requests, %d stalled/late fragments", d.P.Proxy.TimeoutMs, len(d.Clients), totalReqs(d), stalled)
}
