package simrun

// History oracles over the recorded client and backend logs. All relational: a client's bytes are compared with
// what the backends actually received/answered in this very run (token-matched) or with the protocol constants the
// statement names. See DESIGN.md 3.6.

import (
	"bytes"
	"fmt"
	"strconv"
	"strings"
	"time"
)

// proxy-generated error replies (observable protocol constants)
var proxyErrors = []string{
	"-ERR unknown error\r\n", "-ERR addr not found\r\n", RUnknownCmd, RUnknownSlot, "-ERR unknown proxy pool\r\n",
	"-ERR unknown proxy pool conn\r\n", "-ERR unknown mget error\r\n", RReqTooLarge, RRspTooLarge, RWrongArgs, RTimeout,
	RAuthBad, RAuthNoPw, "-ERR too many cluster redirections\r\n",
}

func isProxyError(b []byte) bool {
	for _, e := range proxyErrors {
		if string(b) == e {
			return true
		}
	}
	return false
}

type Expected struct {
	Known    bool     // the oracle can say what the reply must be
	Exact    []byte   // exact bytes (when !AnyError)
	Alt      []byte   // a second acceptable exact reply (e.g. timeout error vs. a late-but-in-time reply)
	AnyError bool     // any RESP error reply is right
	Why      string
}

// dataRecs returns the backend records (kind data) that carry a key token of request tok, in arrival order.
func (d *Driver) recsFor(tok string) []*CmdRec {
	var out []*CmdRec
	for _, r := range d.C.Log {
		if r.Kind != "data" && r.Kind != "redirect" {
			continue
		}
		for _, t := range r.Tokens {
			if strings.HasPrefix(t, tok+"k") {
				out = append(out, r)
				break
			}
		}
	}
	return out
}

func (d *Driver) expectedFor(c *ClientState, i int) Expected {
	rq := &c.Plan.Reqs[i]
	msgMax := d.P.Proxy.MsgMax
	switch rq.Class {
	case "local", "reject":
		if string(rq.Expect) == "-" {
			return Expected{Known: true, AnyError: true, Why: rq.Class + " (any error reply)"}
		}
		return Expected{Known: true, Exact: rq.Expect, Why: rq.Class}
	case "either":
		// unspecified by the statement whether this request is served: if a backend saw it, its reply must come back
		// unchanged, otherwise the proxy must have answered with an error of its own
		for _, r := range d.recsFor(rq.Tok) {
			if r.Kind == "data" && r.Released {
				if len(r.Reply) > msgMax {
					return Expected{Known: true, AnyError: true, Why: "served, reply larger than the limit"}
				}
				return Expected{Known: true, Exact: r.Reply, Why: "served (unspecified case)"}
			}
		}
		return Expected{Known: true, AnyError: true, Why: "not served (unspecified case): an error reply is due"}
	case "single":
		if d.P.Proxy.TimeoutMs > 0 && len(rq.Keys) > 0 && d.ownerHung(rq.Keys[0]) {
			return Expected{Known: true, AnyError: true, Why: "the owning node hangs: a timeout (or another proxy error) is due, in position"}
		}
		var fin, last *CmdRec
		for _, r := range d.recsFor(rq.Tok) {
			if r.Kind == "data" && r.Name == rq.Cmd {
				last = r
				if r.Released {
					fin = r
				}
			}
		}
		if T := time.Duration(d.P.Proxy.TimeoutMs) * time.Millisecond; T > 0 && last != nil {
			// the proxy's deadline is (write to the backend socket + T), and the write is not earlier than the instant the
			// client sent the request's last byte: a reply fully handed to the proxy before sentAt+T was in time for sure.
			if !last.Released {
				return Expected{Known: true, Exact: []byte(RTimeout), Why: "backend never answered"}
			}
			if last.RelAt-c.SentAt[i] >= T {
				return Expected{Known: true, Exact: []byte(RTimeout), Alt: last.Reply, Why: "backend answered around/after the deadline: timeout error, or the reply if it still made it"}
			}
		}
		if fin == nil {
			return Expected{Why: "no backend answered this request"}
		}
		if len(fin.Reply) > msgMax {
			return Expected{Known: true, AnyError: true, Why: "backend reply larger than the limit"}
		}
		return Expected{Known: true, Exact: fin.Reply, Why: fmt.Sprintf("reply of %s to cmd#%d", fin.Node, fin.Idx)}
	case "split":
		return d.expectedSplit(rq, msgMax, c.SentAt[i])
	}
	return Expected{}
}

// ownerHung: the node owning the key's slot in the initial topology has been stopped (profiles that hang a node do so before
// any client request is sent and route everything to masters).
func (d *Driver) ownerHung(key string) bool {
	o := d.P.Topos[0].Owner(RefSlot([]byte(key)))
	if o == nil {
		return false
	}
	n := d.C.Nodes[o.Addr]
	return n != nil && n.Hung
}

func (d *Driver) expectedSplit(rq *ReqPlan, msgMax int, sentAt time.Duration) Expected {
	if d.P.Proxy.TimeoutMs > 0 {
		for _, k := range rq.Keys {
			if d.ownerHung(k) {
				return Expected{Known: true, AnyError: true, Why: "a fragment's node hangs: an error is due for the whole request, in position"}
			}
		}
	}
	recs := d.recsFor(rq.Tok)
	var data []*CmdRec
	held, late := false, false
	for _, r := range recs {
		if T := time.Duration(d.P.Proxy.TimeoutMs) * time.Millisecond; T > 0 && r.Kind == "data" && r.Name == rq.Cmd {
			if !r.Released {
				held = true
			} else if r.RelAt-sentAt >= T {
				late = true
			}
		}
		if r.Kind == "data" && r.Released && r.Name == rq.Cmd {
			data = append(data, r)
		}
	}
	for _, r := range data {
		if (held || late) && len(r.Reply) > 0 && r.Reply[0] == '-' {
			// one fragment stalls, another was answered with an error: whichever the proxy sees first decides the error text
			return Expected{Known: true, AnyError: true, Why: "a fragment stalled and another one was answered with an error"}
		}
	}
	if d.P.Proxy.TimeoutMs > 0 && held {
		return Expected{Known: true, Exact: []byte(RTimeout), Why: "a fragment stalled beyond the request timeout"}
	}
	if d.P.Proxy.TimeoutMs > 0 && late {
		e := d.expectedSplitFrom(rq, data, msgMax)
		if e.Known && !e.AnyError {
			return Expected{Known: true, Exact: []byte(RTimeout), Alt: e.Exact, Why: "a fragment answered late"}
		}
		return Expected{Known: true, AnyError: true, Why: "a fragment answered late"}
	}
	return d.expectedSplitFrom(rq, data, msgMax)
}

func (d *Driver) expectedSplitFrom(rq *ReqPlan, data []*CmdRec, msgMax int) Expected {
	if len(data) == 0 {
		return Expected{Why: "no fragment answered"}
	}
	for _, r := range data {
		if len(r.Reply) > 0 && r.Reply[0] == '-' {
			return Expected{Known: true, AnyError: true, Why: "a fragment was answered with an error"}
		}
		if len(r.Reply) > msgMax {
			return Expected{Known: true, AnyError: true, Why: "fragment reply larger than the limit"}
		}
	}
	switch rq.Cmd {
	case "mget":
		// the j-th occurrence of key k in the request maps to the j-th occurrence of k across the data records
		used := map[*CmdRec]map[int]bool{}
		var b bytes.Buffer
		fmt.Fprintf(&b, "*%d\r\n", len(rq.Keys))
		for _, k := range rq.Keys {
			found := false
			for _, r := range data {
				if used[r] == nil {
					used[r] = map[int]bool{}
				}
				rep, _, st := ParseReply(r.Reply)
				if st != ROk || rep.Kind != '*' {
					return Expected{Why: "fragment reply is not an array"}
				}
				for j, a := range r.Args[1:] {
					if string(a) == k && !used[r][j] {
						if j >= len(rep.Elems) {
							return Expected{Why: "fragment reply too short"}
						}
						used[r][j] = true
						el := rep.Elems[j]
						if el.Null {
							b.Write(NilBulk)
						} else {
							b.Write(Bulk(el.Str))
						}
						found = true
						break
					}
				}
				if found {
					break
				}
			}
			if !found {
				return Expected{Why: "key " + k + " not seen at any backend"}
			}
		}
		if b.Len() > msgMax {
			return Expected{Known: true, AnyError: true, Why: "merged reply larger than the limit"}
		}
		return Expected{Known: true, Exact: b.Bytes(), Why: "mget merge"}
	case "del":
		sum := int64(0)
		nkeys := 0
		for _, r := range data {
			rep, _, st := ParseReply(r.Reply)
			if st != ROk || rep.Kind != ':' {
				return Expected{Why: "del fragment reply is not an integer"}
			}
			v, _ := strconv.ParseInt(string(rep.Str), 10, 64)
			sum += v
			nkeys += len(r.Args) - 1
		}
		if nkeys != len(rq.Keys) {
			return Expected{Why: "not every key reached a backend"}
		}
		return Expected{Known: true, Exact: []byte(fmt.Sprintf(":%d\r\n", sum)), Why: "del sum"}
	case "mset":
		nkeys := 0
		for _, r := range data {
			if string(r.Reply) != ROK {
				return Expected{Known: true, AnyError: true, Why: "an mset fragment was not answered OK"}
			}
			nkeys += (len(r.Args) - 1) / 2
		}
		if nkeys != len(rq.Keys) {
			return Expected{Why: "not every key reached a backend"}
		}
		return Expected{Known: true, Exact: []byte(ROK), Why: "mset conjunction"}
	}
	return Expected{}
}

type Relax struct {
	AllowProxyError   bool // a proxy-generated error may stand in for a reply
	AllowMissingClosed bool // replies may be absent if the proxy closed the connection
	AllowMissing      bool // replies may be absent altogether (liveness is another property's business)
	AllowAnyErrorForUnknown bool
}

type ReplyFinding struct {
	Client, Pos int
	Kind        string // match | missing | extra | malformed | proxy-error | reordered | foreign | altered | unattributable
	Got, Want   []byte
	Why         string
	LocalCmd    string
}

// ClassifyReplies compares every client's reply stream with the expected one.
func (d *Driver) ClassifyReplies() []ReplyFinding {
	var out []ReplyFinding
	// all expected exact replies of forwarded requests, for "foreign" detection
	for _, c := range d.Clients {
		if !c.Connected || c.Plan.Hostile {
			continue
		}
		n := len(c.Plan.Reqs)
		exps := make([]Expected, n)
		for i := 0; i < n; i++ {
			exps[i] = d.expectedFor(c, i)
		}
		quitAt := -1
		for i := 0; i < n; i++ {
			if c.Plan.Reqs[i].Quit && quitAt < 0 {
				quitAt = i
			}
		}
		for i := 0; i < n; i++ {
			rq := &c.Plan.Reqs[i]
			if quitAt >= 0 && i > quitAt {
				if i < len(c.Replies) {
					out = append(out, ReplyFinding{Client: c.Idx, Pos: i, Kind: "extra", Got: c.Replies[i], Why: "reply after QUIT"})
				}
				continue
			}
			if i >= len(c.Replies) {
				out = append(out, ReplyFinding{Client: c.Idx, Pos: i, Kind: "missing", Why: exps[i].Why, LocalCmd: rq.Cmd})
				continue
			}
			got := c.Replies[i]
			e := exps[i]
			f := ReplyFinding{Client: c.Idx, Pos: i, Got: got, Want: e.Exact, Why: e.Why, LocalCmd: rq.Cmd}
			switch {
			case e.Known && e.AnyError && len(got) > 0 && got[0] == '-':
				f.Kind = "match"
			case e.Known && !e.AnyError && (bytes.Equal(got, e.Exact) || (e.Alt != nil && bytes.Equal(got, e.Alt))):
				f.Kind = "match"
			default:
				f.Kind = d.misclassify(c, i, got, exps)
			}
			out = append(out, f)
		}
		if len(c.Replies) > n {
			out = append(out, ReplyFinding{Client: c.Idx, Pos: n, Kind: "extra", Got: c.Replies[n], Why: "more replies than requests"})
		}
		if c.Malformed {
			out = append(out, ReplyFinding{Client: c.Idx, Pos: len(c.Replies), Kind: "malformed", Got: clip(c.recv, 120), Why: "bytes that are not a RESP2 reply"})
		} else if len(c.recv) > 0 && !c.Sock.Closed() && !c.SelfClosed {
			out = append(out, ReplyFinding{Client: c.Idx, Pos: len(c.Replies), Kind: "extra", Got: clip(c.recv, 120), Why: "trailing partial reply bytes"})
		}
	}
	return out
}

func (d *Driver) clientFinishedOrSettled(c *ClientState) bool { return true }

func (d *Driver) misclassify(c *ClientState, i int, got []byte, exps []Expected) string {
	own := c.Plan.Reqs[i].Tok
	if isProxyError(got) && (!exps[i].Known || d.P.Faulty || c.Plan.Reqs[i].Class == "single" || c.Plan.Reqs[i].Class == "split") {
		// one of the proxy's own constants where a forwarded reply was due: say so (whether that is acceptable is the profile's call)
		return "proxy-error"
	}
	// reordered: the bytes are exactly what another position of this client was to receive
	order := make([]int, 0, len(exps))
	for j := i + 1; j < len(exps); j++ {
		order = append(order, j)
	}
	for j := i - 1; j >= 0; j-- {
		order = append(order, j)
	}
	for pass := 0; pass < 2; pass++ {
		for _, j := range order {
			e := exps[j]
			if !e.Known || e.AnyError || !bytes.Equal(got, e.Exact) {
				continue
			}
			cj := c.Plan.Reqs[j].Class
			if pass == 0 && (cj == c.Plan.Reqs[i].Class) && len(got) <= 12 {
				continue // short replies of the same class coincide too easily; decide by token below
			}
			if pass == 1 && !(cj == "local" || cj == "reject") {
				continue
			}
			dir := "overtakes"
			if j < i {
				dir = "late"
			}
			return "reordered:" + cj + "-" + dir
		}
	}
	// foreign: carries a token that belongs to another request
	for _, t := range tokenRe.FindAll(clip(got, 1<<16), -1) {
		ts := string(t)
		if !strings.HasPrefix(ts, own+"k") {
			if strings.HasPrefix(ts, own[:strings.Index(own, "r")+1]) {
				return "reordered:token"
			}
			return "foreign"
		}
	}
	if isProxyError(got) {
		return "proxy-error"
	}
	if !exps[i].Known {
		return "unattributable"
	}
	return "altered"
}

// StdReplyCheck turns findings into violations of property prop under the given relaxation.
func (d *Driver) StdReplyCheck(prop string, rx Relax) {
	seen := map[string]bool{}
	doneClient := map[int]bool{}
	for _, f := range d.ClassifyReplies() {
		if doneClient[f.Client] {
			continue // later positions of the same stream are knock-on effects of the first divergence
		}
		c := d.Clients[f.Client]
		closed := c.ProxyClosed || c.Sock.Closed()
		bad := false
		kind, sub := f.Kind, ""
		if k, s2, ok := strings.Cut(f.Kind, ":"); ok {
			kind, sub = k, s2
		}
		switch kind {
		case "match":
		case "missing":
			if c.SelfClosed {
				break
			}
			if rx.AllowMissing || (rx.AllowMissingClosed && closed) {
				break
			}
			bad = true
		case "proxy-error":
			if !rx.AllowProxyError {
				bad = true
			}
		case "unattributable":
			// a reply exists although no backend answered the request and the proxy did not produce one of its errors
			if len(f.Got) > 0 && f.Got[0] == '-' && rx.AllowProxyError {
				break
			}
			bad = true
		default:
			bad = true
		}
		if !bad {
			continue
		}
		doneClient[f.Client] = true
		rq := c.Plan.Reqs[min(f.Pos, len(c.Plan.Reqs)-1)]
		det := map[string]string{"class": rq.Class}
		if sub != "" {
			det["how"] = sub
		}
		if kind == "proxy-error" {
			det["got"] = strings.TrimSpace(string(clip(f.Got, 40)))
		}
		if kind == "missing" {
			det["closed"] = fmt.Sprint(closed)
		}
		v := Violation{Prop: prop, Kind: "reply-" + kind, Detail: det, Step: d.Step}
		if seen[v.Sig()] {
			continue
		}
		seen[v.Sig()] = true
		v.Msg = fmt.Sprintf("client %d position %d (%s %s): got %q want %q (%s); closed-by-proxy=%v",
			f.Client, f.Pos, rq.Class, f.LocalCmd, clip(f.Got, 100), clip(f.Want, 100), f.Why, closed)
		d.Viol = append(d.Viol, v)
	}
}

// NoBackendProtoErrors: nothing a redis-server would reject as a protocol error reached a backend.
func (d *Driver) NoBackendProtoErrors(prop string) {
	for _, r := range d.C.Log {
		if r.Kind == "protoerr" {
			d.violate(prop, "backend-protocol-error", map[string]string{}, "node %s conn#%d: redis would answer %q to bytes %q", r.Node, r.ConnID, r.Reply, clip(r.Raw, 100))
			return
		}
	}
}
