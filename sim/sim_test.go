// math/rand's top-level functions are used by rcproxy (replica pick, probe target). Since Go 1.24 rand.Seed is a no-op
// unless this setting is given, and the unseeded global source draws from runtime.rand(), which the overlay pins per poll:
// every pick within one poll would be identical. With the setting the harness seeds an ordinary PRNG from the run seed.
//
//go:debug randseednop=0
package simrun

import (
	"encoding/json"
	"flag"
	"fmt"
	"os"
	"path/filepath"
	"runtime"
	"runtime/debug"
	"runtime/pprof"
	"sort"
	"strconv"
	"strings"
	"sync/atomic"
	"syscall"
	"testing"
	"unsafe"
	"testing/synctest"
	"time"

	"rcproxy/core/pkg/logging"
)

var (
	fSeed    = flag.Uint64("sim.seed", 1, "run seed")
	fProfile = flag.String("sim.profile", "C01", "profile name")
	fVariant = flag.String("sim.variant", "", "profile variant (e.g. clean|faulty|enum:<n>)")
	fOut     = flag.String("sim.out", "", "write the result JSON here (default stdout)")
	fReplay  = flag.String("sim.replay", "", "replay file (plan + optional tape)")
	fDump    = flag.String("sim.dump", "", "write a replay file for this run here")
	fTrace   = flag.Bool("sim.trace", false, "include the driver trace and kernel log in the result")
	fGenOnly = flag.Bool("sim.genonly", false, "only generate the plan and dump it")
	fLogLvl  = flag.String("sim.loglevel", "ERROR", "rcproxy log level")
	fBatch   = flag.String("sim.batch", "", "search accelerator: file with one 'profile variant seed' job per line; the jobs run one after the other in this process, each in a bubble of its own, and one result line each is appended to -sim.out (violations found this way are only candidates: the runner re-runs them in a process of their own)")
)

type Result struct {
	Seed       uint64            `json:"seed"`
	Profile    string            `json:"profile"`
	Variant    string            `json:"variant,omitempty"`
	Prop       string            `json:"prop"`
	LogHash    string            `json:"log_hash"`
	PollHash   string            `json:"poll_hash"`
	Steps      int               `json:"steps"`
	FakeMs     int64             `json:"fake_ms"`
	Kernel     KStats            `json:"kernel"`
	Counters   map[string]int    `json:"counters"`
	States     []string          `json:"states"`
	Violations []Violation       `json:"violations"`
	Nontrivial bool              `json:"nontrivial"`
	Sample     string            `json:"sample,omitempty"`
	Trace      []string          `json:"trace,omitempty"`
	KLog       []string          `json:"klog,omitempty"`
	Error      string            `json:"error,omitempty"`
	Converged  bool              `json:"converged"`
	Extra      map[string]string `json:"extra,omitempty"`
	Batch      bool              `json:"batch,omitempty"`
}

type ReplayFile struct {
	Seed    uint64 `json:"seed"`
	Profile string `json:"profile"`
	Variant string `json:"variant,omitempty"`
	Plan    *Plan  `json:"plan"`
	Tape    []int  `json:"tape,omitempty"`
	UseTape bool   `json:"use_tape"`
	Sig     string `json:"sig,omitempty"`
	Note    string `json:"note,omitempty"`
}

func writeJSON(path string, v interface{}) {
	b, err := json.Marshal(v)
	if err != nil {
		fmt.Fprintln(os.Stderr, "sim: marshal:", err)
		os.Exit(4)
	}
	if path == "" {
		os.Stdout.Write(b)
		os.Stdout.Write([]byte("\n"))
		return
	}
	if err := os.WriteFile(path, b, 0o644); err != nil {
		fmt.Fprintln(os.Stderr, "sim: write:", err)
		os.Exit(4)
	}
}

func realNs() int64 {
	var ts syscall.Timespec
	syscall.Syscall(syscall.SYS_CLOCK_GETTIME, 1, uintptr(unsafe.Pointer(&ts)), 0)
	return ts.Sec*1e9 + ts.Nsec
}

var timing = os.Getenv("SIM_TIMING") != ""
var tPrev int64

func mark(what string) {
	if !timing {
		return
	}
	n := realNs()
	if tPrev != 0 {
		fmt.Fprintf(os.Stderr, "timing %s %.1fms\n", what, float64(n-tPrev)/1e6)
	}
	tPrev = n
}

func TestSim(t *testing.T) {
	mark("start")
	runtime.VerifSetNoLockOSThread(os.Getenv("SIM_LOCKOSTHREAD") == "")
	runtime.GOMAXPROCS(1)
	debug.SetGCPercent(-1)
	if *fBatch != "" {
		runBatch(t)
		return
	}
	prof, ok := Profiles[*fProfile]
	if !ok {
		fmt.Fprintln(os.Stderr, "sim: unknown profile", *fProfile)
		os.Exit(4)
	}
	var plan *Plan
	tape := &Tape{rng: NewRng(*fSeed).Derive("tape")}
	if *fReplay != "" {
		b, err := os.ReadFile(*fReplay)
		if err != nil {
			fmt.Fprintln(os.Stderr, "sim:", err)
			os.Exit(4)
		}
		var rf ReplayFile
		if err := json.Unmarshal(b, &rf); err != nil {
			fmt.Fprintln(os.Stderr, "sim: replay file:", err)
			os.Exit(4)
		}
		plan = rf.Plan
		plan.Unseal()
		prof = Profiles[rf.Profile]
		*fSeed, *fProfile, *fVariant = rf.Seed, rf.Profile, rf.Variant
		tape = &Tape{rng: NewRng(rf.Seed).Derive("tape")}
		if rf.UseTape {
			tape.Replay = true
			tape.Rec = rf.Tape
		}
	} else {
		g := NewGen(*fSeed, *fProfile)
		g.Plan.Variant = *fVariant
		g.Plan.Prop = prof.Prop
		g.Plan.Proxy = DefaultProxy()
		g.Plan.Sched = DefaultSched()
		g.Plan.Kernel = KernelCfg{ClientSndCap: 1 << 20, BackendSndCap: 1 << 20}
		prof.Gen(g)
		plan = g.Plan
	}
	if *fGenOnly {
		plan.Seal()
		writeJSON(*fDump, &ReplayFile{Seed: *fSeed, Profile: *fProfile, Variant: *fVariant, Plan: plan})
		os.Exit(0)
	}
	// not os.MkdirTemp: its random suffix comes from runtime.rand(), which the overlay pins, so every process would pick
	// the same name and a leftover directory of a crashed run would block all later ones
	logDir := filepath.Join(os.TempDir(), fmt.Sprintf("simlog-%d-%d", os.Getpid(), time.Now().UnixNano()))
	_ = os.MkdirAll(logDir, 0o700)
	_ = logging.InitializeLogger(logging.WithPath(logDir), logging.WithExpireDay(1), logging.WithLogLevel(*fLogLvl))

	if plan.Whitelist != nil {
		if err := wlSetup(plan); err != nil {
			fmt.Fprintln(os.Stderr, "sim: whitelist setup:", err)
			os.Exit(4)
		}
	}

	var progress int64
	// real-time watchdog, outside the bubble: a granted poll that does not come back is a live-lock of the proxy
	go func() {
		last := int64(-1)
		stuck := 0
		for {
			time.Sleep(500 * time.Millisecond)
			cur := atomic.LoadInt64(&progress)
			if cur == last {
				stuck++
			} else {
				stuck = 0
			}
			last = cur
			if stuck >= 120 && atomic.LoadInt32(&OracleBusy) != 0 {
				// the history oracle (linearizability search) is taking too long: inconclusive, never a violation
				fmt.Fprintln(os.Stderr, "sim: history oracle exceeded 60s real time (inconclusive)")
				os.RemoveAll(logDir)
				os.Exit(5)
			}
			if stuck >= 120 {
				fmt.Fprintln(os.Stderr, "SIM-WATCHDOG: no driver progress for 60s real time; goroutine dump follows")
				pprof.Lookup("goroutine").WriteTo(os.Stderr, 2)
				os.RemoveAll(logDir)
				os.Exit(3)
			}
		}
	}()

	mark("plan+logger")
	synctest.Test(t, func(t *testing.T) {
		res := simulate(plan, prof, tape, &progress, *fSeed, *fProfile, *fVariant)
		if *fDump != "" {
			plan.Seal()
			writeJSON(*fDump, &ReplayFile{Seed: *fSeed, Profile: *fProfile, Variant: *fVariant, Plan: plan, Tape: tape.Rec, UseTape: true})
		}
		mark("check")
		writeJSON(*fOut, res)
		os.RemoveAll(logDir)
		mark("write+cleanup")
		if res.Error != "" {
			os.Exit(4)
		}
		os.Exit(0)
	})
}

// simulate runs one plan inside the calling goroutine's synctest bubble and returns the evaluated result.
func simulate(plan *Plan, prof *Profile, tape *Tape, progress *int64, seed uint64, profile, variant string) *Result {
	runtime.VerifSetClockTick(50)
	runtime.VerifSetRand(true, plan.Seed*0x9e3779b97f4a7c15+7)
	k := NewKernel(tape, *fTrace)
	k.Cfg = plan.Kernel
	c := NewCluster(&plan.Topos[0], plan.Seed)
	for i := range plan.Topos {
		c.EnsureNodes(&plan.Topos[i])
	}
	c.Password = plan.Proxy.Password
	d := &Driver{K: k, C: c, P: plan, T: tape, Counters: map[string]int{}, Progress: progress, States: map[string]bool{},
		Start: time.Now(), keepTrace: *fTrace}
	for i := range plan.Events {
		d.events = append(d.events, &plan.Events[i])
	}
	for _, kv := range plan.Prepop {
		if o := plan.Topos[0].Owner(RefSlot([]byte(kv[0]))); o != nil {
			c.Nodes[o.Addr].Store[kv[0]] = []byte(kv[1])
		}
	}
	for i := range plan.Clients {
		d.Clients = append(d.Clients, d.newClient(i, &plan.Clients[i]))
	}
	res := &Result{Seed: seed, Profile: profile, Variant: variant, Prop: plan.Prop}
	d.installHooks()
	if prof.Run != nil {
		prof.Run(d, res)
	} else {
		mark("setup")
		d.boot()
		mark("boot")
		res.Converged = d.converge(15 * time.Second)
		mark("converge")
		if !res.Converged {
			res.Error = "proxy did not adopt the initial topology within 15 fake seconds"
		} else {
			d.workload()
			mark("workload")
			d.settle()
			mark("settle")
			if d.SettleExhausted {
				res.Error = "settle phase step budget exhausted while bytes were still moving (harness limit, not a violation)"
			} else {
				prof.Check(d, res)
			}
		}
	}
	res.LogHash = k.LogHash()
	res.PollHash = k.PollHash()
	res.Steps = d.Step
	res.FakeMs = time.Since(d.Start).Milliseconds()
	res.Kernel = k.Stats
	d.Counters["aux_dials"] = int(atomic.LoadInt64(&d.auxDials))
	res.Counters = d.Counters
	for s := range d.States {
		res.States = append(res.States, s)
	}
	sort.Strings(res.States)
	res.Violations = d.Viol
	if *fTrace {
		res.Trace = d.Trace
		res.KLog = k.Lines()
	}
	return res
}

// genPlan draws the plan of (seed, profile, variant).
func genPlan(seed uint64, profile, variant string) (*Plan, *Profile, bool) {
	prof, ok := Profiles[profile]
	if !ok {
		return nil, nil, false
	}
	g := NewGen(seed, profile)
	g.Plan.Variant = variant
	g.Plan.Prop = prof.Prop
	g.Plan.Proxy = DefaultProxy()
	g.Plan.Sched = DefaultSched()
	g.Plan.Kernel = KernelCfg{ClientSndCap: 1 << 20, BackendSndCap: 1 << 20}
	prof.Gen(g)
	return g.Plan, prof, true
}

// runBatch: several runs in one OS process (search accelerator, see DESIGN.md 12.6). Every run gets a new simulated kernel,
// cluster, driver and bubble and a freshly booted proxy; the goroutines of earlier proxies stay parked for good because the
// root goroutine of their bubble blocks on a channel from outside the bubble (not a durable block), so their fake clock
// never advances again. rcproxy's process-global timeout tree is re-created between runs (overlay-added reset function).
// What is NOT isolated: sync.Pool contents, Prometheus counters, request/fragment id counters. A violation seen here is
// therefore only a candidate; the runner re-runs the job in a process of its own and reports only what reproduces there.
var batchStuck = 120

func runBatch(t *testing.T) {
	if os.Getenv("SIM_BATCH_DEBUG") != "" {
		batchStuck = 10
	}
	if !batchSupported {
		fmt.Fprintln(os.Stderr, "sim: this binary was built without batch support")
		os.Exit(6)
	}
	b, err := os.ReadFile(*fBatch)
	if err != nil {
		fmt.Fprintln(os.Stderr, "sim:", err)
		os.Exit(4)
	}
	out, err := os.OpenFile(*fOut, os.O_CREATE|os.O_WRONLY|os.O_APPEND, 0o644)
	if err != nil {
		fmt.Fprintln(os.Stderr, "sim:", err)
		os.Exit(4)
	}
	logDir := filepath.Join(os.TempDir(), fmt.Sprintf("simlog-%d-%d", os.Getpid(), time.Now().UnixNano()))
	_ = os.MkdirAll(logDir, 0o700)
	_ = logging.InitializeLogger(logging.WithPath(logDir), logging.WithExpireDay(1), logging.WithLogLevel(*fLogLvl))
	var progress int64
	go func() {
		last, stuck := int64(-1), 0
		for {
			time.Sleep(500 * time.Millisecond)
			cur := atomic.LoadInt64(&progress)
			if cur == last {
				stuck++
			} else {
				stuck = 0
			}
			last = cur
			if stuck >= batchStuck {
				// the runner re-runs the unfinished jobs of this batch one per process and classifies the stuck one there
				fmt.Fprintln(os.Stderr, "SIM-WATCHDOG(batch): no driver progress for 60s real time")
				if os.Getenv("SIM_BATCH_DEBUG") != "" {
					pprof.Lookup("goroutine").WriteTo(os.Stderr, 2)
					os.Exit(3)
				}
				os.RemoveAll(logDir)
				os.Exit(3)
			}
		}
	}()
	never := make(chan struct{}) // created outside every bubble: blocking on it is not a durable block
	for _, line := range strings.Split(string(b), "\n") {
		f := strings.Split(line, "\t")
		if len(f) != 3 {
			continue
		}
		seed, _ := strconv.ParseUint(f[2], 10, 64)
		plan, prof, ok := genPlan(seed, f[0], f[1])
		if !ok || plan.Whitelist != nil {
			continue // unknown profile, or one that needs process-wide real resources (inotify): the runner runs it alone
		}
		resetProxyGlobals()
		tape := &Tape{rng: NewRng(seed).Derive("tape")}
		resCh := make(chan *Result, 1)
		go synctest.Test(t, func(t *testing.T) {
			resCh <- simulate(plan, prof, tape, &progress, seed, f[0], f[1])
			<-never
		})
		res := <-resCh
		res.Batch = true
		jb, _ := json.Marshal(res)
		out.Write(append(jb, '\n'))
		atomic.AddInt64(&progress, 1)
		runtime.GC()
	}
	out.Close()
	os.RemoveAll(logDir)
	os.Exit(0)
}
