// math/rand's top-level functions are used by rcproxy (replica pick, probe target). Since Go 1.24 rand.Seed is a no-op
// unless this setting is given, and the unseeded global source draws from runtime.rand(), which the overlay pins per poll:
// every pick within one poll would be identical. With the setting the harness seeds an ordinary PRNG from the run seed.
//
//go:debug randseednop=0
package simrun

import (
	"encoding/json"
	"flag"
	"fmt"
	"os"
	"path/filepath"
	"runtime"
	"runtime/debug"
	"runtime/pprof"
	"sort"
	"sync/atomic"
	"testing"
	"testing/synctest"
	"time"

	"rcproxy/core/pkg/logging"
)

var (
	fSeed    = flag.Uint64("sim.seed", 1, "run seed")
	fProfile = flag.String("sim.profile", "C01", "profile name")
	fVariant = flag.String("sim.variant", "", "profile variant (e.g. clean|faulty|enum:<n>)")
	fOut     = flag.String("sim.out", "", "write the result JSON here (default stdout)")
	fReplay  = flag.String("sim.replay", "", "replay file (plan + optional tape)")
	fDump    = flag.String("sim.dump", "", "write a replay file for this run here")
	fTrace   = flag.Bool("sim.trace", false, "include the driver trace and kernel log in the result")
	fGenOnly = flag.Bool("sim.genonly", false, "only generate the plan and dump it")
	fLogLvl  = flag.String("sim.loglevel", "ERROR", "rcproxy log level")
)

type Result struct {
	Seed       uint64            `json:"seed"`
	Profile    string            `json:"profile"`
	Variant    string            `json:"variant,omitempty"`
	Prop       string            `json:"prop"`
	LogHash    string            `json:"log_hash"`
	PollHash   string            `json:"poll_hash"`
	Steps      int               `json:"steps"`
	FakeMs     int64             `json:"fake_ms"`
	Kernel     KStats            `json:"kernel"`
	Counters   map[string]int    `json:"counters"`
	States     []string          `json:"states"`
	Violations []Violation       `json:"violations"`
	Nontrivial bool              `json:"nontrivial"`
	Sample     string            `json:"sample,omitempty"`
	Trace      []string          `json:"trace,omitempty"`
	KLog       []string          `json:"klog,omitempty"`
	Error      string            `json:"error,omitempty"`
	Converged  bool              `json:"converged"`
	Extra      map[string]string `json:"extra,omitempty"`
}

type ReplayFile struct {
	Seed    uint64 `json:"seed"`
	Profile string `json:"profile"`
	Variant string `json:"variant,omitempty"`
	Plan    *Plan  `json:"plan"`
	Tape    []int  `json:"tape,omitempty"`
	UseTape bool   `json:"use_tape"`
	Sig     string `json:"sig,omitempty"`
	Note    string `json:"note,omitempty"`
}

func writeJSON(path string, v interface{}) {
	b, err := json.Marshal(v)
	if err != nil {
		fmt.Fprintln(os.Stderr, "sim: marshal:", err)
		os.Exit(4)
	}
	if path == "" {
		os.Stdout.Write(b)
		os.Stdout.Write([]byte("\n"))
		return
	}
	if err := os.WriteFile(path, b, 0o644); err != nil {
		fmt.Fprintln(os.Stderr, "sim: write:", err)
		os.Exit(4)
	}
}

func TestSim(t *testing.T) {
	runtime.GOMAXPROCS(1)
	debug.SetGCPercent(-1)
	prof, ok := Profiles[*fProfile]
	if !ok {
		fmt.Fprintln(os.Stderr, "sim: unknown profile", *fProfile)
		os.Exit(4)
	}
	var plan *Plan
	tape := &Tape{rng: NewRng(*fSeed).Derive("tape")}
	if *fReplay != "" {
		b, err := os.ReadFile(*fReplay)
		if err != nil {
			fmt.Fprintln(os.Stderr, "sim:", err)
			os.Exit(4)
		}
		var rf ReplayFile
		if err := json.Unmarshal(b, &rf); err != nil {
			fmt.Fprintln(os.Stderr, "sim: replay file:", err)
			os.Exit(4)
		}
		plan = rf.Plan
		prof = Profiles[rf.Profile]
		*fSeed, *fProfile, *fVariant = rf.Seed, rf.Profile, rf.Variant
		tape = &Tape{rng: NewRng(rf.Seed).Derive("tape")}
		if rf.UseTape {
			tape.Replay = true
			tape.Rec = rf.Tape
		}
	} else {
		g := NewGen(*fSeed, *fProfile)
		g.Plan.Variant = *fVariant
		g.Plan.Prop = prof.Prop
		g.Plan.Proxy = DefaultProxy()
		g.Plan.Sched = DefaultSched()
		g.Plan.Kernel = KernelCfg{ClientSndCap: 1 << 20, BackendSndCap: 1 << 20}
		prof.Gen(g)
		plan = g.Plan
	}
	if *fGenOnly {
		writeJSON(*fDump, &ReplayFile{Seed: *fSeed, Profile: *fProfile, Variant: *fVariant, Plan: plan})
		os.Exit(0)
	}
	// not os.MkdirTemp: its random suffix comes from runtime.rand(), which the overlay pins, so every process would pick
	// the same name and a leftover directory of a crashed run would block all later ones
	logDir := filepath.Join(os.TempDir(), fmt.Sprintf("simlog-%d-%d", os.Getpid(), time.Now().UnixNano()))
	_ = os.MkdirAll(logDir, 0o700)
	_ = logging.InitializeLogger(logging.WithPath(logDir), logging.WithExpireDay(1), logging.WithLogLevel(*fLogLvl))

	if plan.Whitelist != nil {
		if err := wlSetup(plan); err != nil {
			fmt.Fprintln(os.Stderr, "sim: whitelist setup:", err)
			os.Exit(4)
		}
	}

	var progress int64
	// real-time watchdog, outside the bubble: a granted poll that does not come back is a live-lock of the proxy
	go func() {
		last := int64(-1)
		stuck := 0
		for {
			time.Sleep(500 * time.Millisecond)
			cur := atomic.LoadInt64(&progress)
			if cur == last {
				stuck++
			} else {
				stuck = 0
			}
			last = cur
			if stuck >= 120 && atomic.LoadInt32(&OracleBusy) != 0 {
				// the history oracle (linearizability search) is taking too long: inconclusive, never a violation
				fmt.Fprintln(os.Stderr, "sim: history oracle exceeded 60s real time (inconclusive)")
				os.RemoveAll(logDir)
				os.Exit(5)
			}
			if stuck >= 120 {
				fmt.Fprintln(os.Stderr, "SIM-WATCHDOG: no driver progress for 60s real time; goroutine dump follows")
				pprof.Lookup("goroutine").WriteTo(os.Stderr, 2)
				os.RemoveAll(logDir)
				os.Exit(3)
			}
		}
	}()

	synctest.Test(t, func(t *testing.T) {
		runtime.VerifSetClockTick(50)
		runtime.VerifSetRand(true, plan.Seed*0x9e3779b97f4a7c15+7)
		k := NewKernel(tape, *fTrace)
		k.Cfg = plan.Kernel
		c := NewCluster(&plan.Topos[0], plan.Seed)
		for i := range plan.Topos {
			c.EnsureNodes(&plan.Topos[i])
		}
		c.Password = plan.Proxy.Password
		d := &Driver{K: k, C: c, P: plan, T: tape, Counters: map[string]int{}, Progress: &progress, States: map[string]bool{},
			Start: time.Now(), keepTrace: *fTrace}
		for i := range plan.Events {
			d.events = append(d.events, &plan.Events[i])
		}
		for _, kv := range plan.Prepop {
			if o := plan.Topos[0].Owner(RefSlot([]byte(kv[0]))); o != nil {
				c.Nodes[o.Addr].Store[kv[0]] = []byte(kv[1])
			}
		}
		for i := range plan.Clients {
			d.Clients = append(d.Clients, d.newClient(i, &plan.Clients[i]))
		}
		res := &Result{Seed: *fSeed, Profile: *fProfile, Variant: *fVariant, Prop: plan.Prop}
		d.installHooks()
		if prof.Run != nil {
			prof.Run(d, res)
		} else {
			d.boot()
			res.Converged = d.converge(15 * time.Second)
			if !res.Converged {
				res.Error = "proxy did not adopt the initial topology within 15 fake seconds"
			} else {
				d.workload()
				d.settle()
				if d.SettleExhausted {
					res.Error = "settle phase step budget exhausted while bytes were still moving (harness limit, not a violation)"
				} else {
					prof.Check(d, res)
				}
			}
		}
		res.LogHash = k.LogHash()
		res.PollHash = k.PollHash()
		res.Steps = d.Step
		res.FakeMs = time.Since(d.Start).Milliseconds()
		res.Kernel = k.Stats
		d.Counters["aux_dials"] = int(atomic.LoadInt64(&d.auxDials))
		res.Counters = d.Counters
		for s := range d.States {
			res.States = append(res.States, s)
		}
		sort.Strings(res.States)
		res.Violations = d.Viol
		if *fTrace {
			res.Trace = d.Trace
			res.KLog = k.Lines()
		}
		if *fDump != "" {
			writeJSON(*fDump, &ReplayFile{Seed: *fSeed, Profile: *fProfile, Variant: *fVariant, Plan: plan, Tape: tape.Rec, UseTape: true})
		}
		writeJSON(*fOut, res)
		os.RemoveAll(logDir)
		if res.Error != "" {
			os.Exit(4)
		}
		os.Exit(0)
	})
}
