package simrun

import (
	"fmt"
)

type Profile struct {
	Name  string
	Prop  string
	Gen   func(g *Gen)
	Check func(d *Driver, res *Result)
	Run   func(d *Driver, res *Result) // optional: replaces the standard boot/converge/workload/settle sequence
}

var Profiles = map[string]*Profile{}

func register(p *Profile) { Profiles[p.Name] = p }

// ---- shared generator pieces ----

var singleRead = []string{"get", "strlen", "exists", "ttl", "type", "hgetall", "llen", "scard", "zcard", "smembers"}
var singleWrite = []string{"set", "incr", "append", "getset", "setnx", "lpush", "sadd", "hset", "expire", "decr"}

// args after the key for a command so that rcproxy's arity rule and Redis' are both satisfied
func argsFor(g *Gen, cmd string, val string) []string {
	switch cmd {
	case "set", "append", "getset", "setnx":
		return []string{val}
	case "lpush", "sadd":
		return []string{val, "m2"}
	case "hset":
		return []string{"f", val}
	case "expire":
		return []string{"100"}
	}
	return nil
}

func (g *Gen) randomSingle(tok string, slot int) ReqPlan {
	var cmd string
	if g.R.Pct(50) {
		cmd = g.R.Pick(singleRead)
	} else {
		cmd = g.R.Pick(singleWrite)
	}
	key := Key(tok, 0, slot, "")
	return g.Single(tok, cmd, key, argsFor(g, cmd, "v"+tok)...)
}

func (g *Gen) randomSplit(tok string, maxKeys int, dupPct int) ReqPlan {
	cmd := g.R.Pick([]string{"mget", "del", "mset"})
	n := g.R.Range(1, maxKeys)
	var keys, vals []string
	for i := 0; i < n; i++ {
		if len(keys) > 0 && g.R.Pct(dupPct) && cmd != "mset" {
			keys = append(keys, keys[g.R.Intn(len(keys))])
			continue
		}
		slot := -1
		if g.R.Pct(40) {
			slot = g.R.Intn(16384)
		}
		keys = append(keys, Key(tok, i, slot, ""))
	}
	if cmd == "mset" {
		for i := range keys {
			vals = append(vals, fmt.Sprintf("v%s_%d", tok, i))
		}
	}
	return g.Split(tok, cmd, keys, vals)
}

func (g *Gen) randomLocal(tok string, password string) ReqPlan {
	switch g.R.Intn(6) {
	case 0, 1:
		return g.Local(tok, "ping", RPong)
	case 2:
		if password == "" {
			return g.Local(tok, "auth", RAuthNoPw, "whatever")
		}
		if g.R.Pct(50) {
			return g.Local(tok, "auth", ROK, password)
		}
		return g.Local(tok, "auth", RAuthBad, password+"x")
	case 3:
		return g.Reject(tok, RUnknownCmd, "flushall")
	case 4:
		return g.Reject(tok, RWrongArgs, "get", "a"+tok, "b")
	default:
		return g.Reject(tok, RUnknownCmd, "keys", "*")
	}
}

func (g *Gen) pickTopology() Topology {
	return g.StdTopology(g.R.Range(3, 5), g.R.Range(0, 2), g.R.Pct(40))
}

func (g *Gen) swarmProxy() {
	p := &g.Plan.Proxy
	p.BufCap = []int{64, 257, 4096, 65536, 65536}[g.R.Intn(5)]
	p.ServerConns = g.R.Range(1, 3)
	if g.R.Pct(30) {
		p.Password = "s3cret"
	}
	p.DisableSlave = g.R.Pct(40)
	p.Preconnect = g.R.Pct(30)
}

func (g *Gen) swarmKernel(faulty bool) {
	k := &g.Plan.Kernel
	k.ClientSndCap, k.BackendSndCap = 1<<20, 1<<20
	if g.R.Pct(50) {
		k.ShortReadPct = g.R.Range(0, 40)
	}
	if g.R.Pct(50) {
		k.ShortWritePct = g.R.Range(0, 40)
	}
	if g.R.Pct(25) {
		k.ClientSndCap = []int{8, 64, 512}[g.R.Intn(3)]
	}
	if g.R.Pct(25) {
		k.BackendSndCap = []int{8, 64, 512}[g.R.Intn(3)]
	}
}

func clientAddr(i int) string { return fmt.Sprintf("192.168.%d.%d:%d", 1+i/200, 10+i%200, 30000+i) }

// ---- C01: replies in request order, exactly one per request ----

func init() {
	register(&Profile{Name: "C01", Prop: "C01", Gen: genC01, Check: func(d *Driver, res *Result) {
		d.StdReplyCheck("C01", Relax{})
		mixed := 0
		for _, c := range d.Clients {
			hasL, hasF := false, false
			for _, r := range c.Plan.Reqs {
				if r.Class == "local" || r.Class == "reject" {
					hasL = true
				} else {
					hasF = true
				}
			}
			if hasL && hasF {
				mixed++
			}
		}
		res.Nontrivial = mixed > 0 && d.K.Stats.PollsMulti > 0
		res.Sample = fmt.Sprintf("%d clients, %d requests, %d backend cmds, %d polls", len(d.Clients), totalReqs(d), len(d.C.Log), d.K.Stats.Polls)
	}})
}

func totalReqs(d *Driver) int {
	n := 0
	for _, c := range d.Clients {
		n += len(c.Plan.Reqs)
	}
	return n
}

func genC01(g *Gen) {
	p := g.Plan
	p.Topos = []Topology{g.pickTopology()}
	g.swarmProxy()
	g.swarmKernel(false)
	if p.Variant == "backlog" {
		// a client that pipelines requests with large replies and does not read for a while: megabytes of replies pile up in the
		// proxy behind a full socket, more requests (forwarded and local) are already waiting, then it reads everything
		g.cleanKernel()
		p.Kernel.ClientSndCap = 65536
		p.Proxy.BufCap = 65536
		p.Proxy.Password = ""
		p.Sched.MaxSteps = 20000
		p.Sched.SettleS = 12
		// open loop: a request every 2 ms, so that the last ones arrive when the replies of the first ones already fill the
		// proxy's outbound buffer
		cp := ClientPlan{Addr: clientAddr(0), Mode: "pipeline", CloseAfterSent: -1, CloseAfterReplies: -1, ReadAfterMs: g.R.Range(500, 900), TailAfterAnswered: 8}
		p.Sched.WTime = 3
		n := g.R.Range(70, 130)
		for ri := 0; ri < n; ri++ {
			tok := Tok(0, ri)
			cp.Reqs = append(cp.Reqs, g.Single(tok, "hget", Key(tok, 0, -1, fmt.Sprintf("~S5~L%d", g.R.Range(60000, 70000))), "f")) // scripted reply: a bulk of that size
		}
		for ri := n; ri < n+8; ri++ {
			tok := Tok(0, ri)
			if g.R.Pct(40) {
				cp.Reqs = append(cp.Reqs, g.randomLocal(tok, ""))
			} else {
				cp.Reqs = append(cp.Reqs, g.randomSingle(tok, -1))
			}
		}
		p.Clients = append(p.Clients, cp)
		return
	}
	nc := g.R.Range(1, 4)
	maxReq := 40
	if p.Variant == "deep" {
		maxReq = 80
	}
	startSpread := 20
	if p.Variant == "crowd" {
		// hundreds of connections ready in the same poll: the poller's event list (128 entries at start) must grow and the
		// per-poll batch is larger than one epoll_wait result
		nc = g.R.Range(140, 330)
		maxReq = 3
		startSpread = 4
		p.Sched.WPoll = 2
	}
	for ci := 0; ci < nc; ci++ {
		cp := ClientPlan{Addr: clientAddr(ci), Mode: g.R.Pick([]string{"pipeline", "pipeline", "open"}), GapMs: g.R.Range(1, 30),
			CloseAfterSent: -1, CloseAfterReplies: -1, StartStep: g.R.Intn(startSpread), Slow: g.R.Pct(15)}
		if p.Variant == "crowd" {
			if g.R.Pct(90) {
				cp.SendAfterAccepts = nc // all of these become ready for the same poll
			}
			cp.Mode = "pipeline"
		}
		n := g.R.Range(1, maxReq)
		localPct := []int{0, 10, 30, 60}[g.R.Intn(4)]
		for ri := 0; ri < n; ri++ {
			tok := Tok(ci, ri)
			switch {
			case g.R.Pct(localPct):
				cp.Reqs = append(cp.Reqs, g.randomLocal(tok, p.Proxy.Password))
			case g.R.Pct(30):
				cp.Reqs = append(cp.Reqs, g.randomSplit(tok, 6, 20))
			default:
				cp.Reqs = append(cp.Reqs, g.randomSingle(tok, -1))
			}
		}
		if g.R.Pct(20) {
			cp.Reqs = append(cp.Reqs, g.Local(Tok(ci, n), "quit", ROK))
		}
		p.Clients = append(p.Clients, cp)
	}
}
