package simrun

import (
	"fmt"
	"strings"
	"time"

	"rcproxy/core/pkg/verifhook"
)

// ---- C14: routing table converges to the latest valid CLUSTER NODES description ----

type HistStep struct {
	Topo    int      `json:"topo"`             // index into Plan.Topos that becomes the cluster truth
	Lag     []string `json:"lag,omitempty"`    // nodes that keep reporting the previous description during this phase
	Script  []string `json:"script,omitempty"` // unusable probe answers every node gives first (raw RESP)
	Kind    string   `json:"kind,omitempty"`   // name of the unusable answer kind (for reporting)
	Secs    int      `json:"secs"`             // fake seconds this phase lasts
	Mutated string   `json:"mutated,omitempty"`
}

func init() {
	register(&Profile{Name: "C14", Prop: "C14", Gen: genC14, Run: runC14})
}

func usableCount(t *Topology) int {
	n := 0
	for i := range t.Nodes {
		if usableDesc(&t.Nodes[i]) && !t.Nodes[i].Loading && !t.Nodes[i].LinkDown {
			n++
		}
	}
	return n
}

func hasReplica(t *Topology, id string) *NodeDesc {
	for i := range t.Nodes {
		if !t.Nodes[i].Master && t.Nodes[i].MasterID == id && usableDesc(&t.Nodes[i]) {
			return &t.Nodes[i]
		}
	}
	return nil
}

// mutate derives the next cluster description from prev. Returns the description and a short name of what changed.
func (g *Gen) mutateTopo(prev Topology, gen int, ever map[string]bool) (Topology, string) {
	for try := 0; try < 20; try++ {
		t := cloneTopo(prev)
		var masters, replicas []int
		for i, n := range t.Nodes {
			if n.Master && usableDesc(&t.Nodes[i]) && len(n.Slots) > 0 {
				masters = append(masters, i)
			}
			if !n.Master {
				replicas = append(replicas, i)
			}
		}
		what := ""
		newAddr := func() string {
			for {
				a := fmt.Sprintf("10.1.%d.%d:7000", gen, g.R.Range(1, 200))
				if !ever[a] {
					ever[a] = true
					return a
				}
			}
		}
		switch g.R.Intn(10) {
		case 0: // failover: a replica takes over, the old master is marked failed
			mi := masters[g.R.Intn(len(masters))]
			rep := hasReplica(&t, t.Nodes[mi].ID)
			if rep == nil {
				continue
			}
			rep.Master, rep.MasterID = true, ""
			rep.Slots = t.Nodes[mi].Slots
			t.Nodes[mi].Slots = nil
			for i := range t.Nodes {
				if !t.Nodes[i].Master && t.Nodes[i].MasterID == t.Nodes[mi].ID {
					t.Nodes[i].MasterID = rep.ID
				}
			}
			if g.R.Pct(50) {
				t.Nodes[mi].Flags = append(t.Nodes[mi].Flags, "fail")
				what = "failover"
			} else {
				// manual failover: the old master stays in the cluster as a replica of the new one (role swap)
				t.Nodes[mi].Master, t.Nodes[mi].MasterID = false, rep.ID
				what = "role-swap"
			}
		case 1: // a new master takes part of a range
			mi := masters[g.R.Intn(len(masters))]
			r := t.Nodes[mi].Slots[0]
			if r[1]-r[0] < 4 {
				continue
			}
			mid := g.R.Range(r[0]+1, r[1])
			t.Nodes[mi].Slots[0] = [2]int{r[0], mid - 1}
			a := newAddr()
			t.Nodes = append(t.Nodes, NodeDesc{ID: fmt.Sprintf("%040x", 0xd000+gen*256+len(t.Nodes)), Addr: a, Master: true, Slots: [][2]int{{mid, r[1]}}})
			what = "new-master"
		case 2: // a new replica, possibly still loading / link down
			mi := masters[g.R.Intn(len(masters))]
			a := newAddr()
			n := NodeDesc{ID: fmt.Sprintf("%040x", 0xe000+gen*256+len(t.Nodes)), Addr: a, MasterID: t.Nodes[mi].ID}
			switch g.R.Intn(4) {
			case 0:
				n.Loading = true
				what = "new-replica-loading"
			case 1:
				n.LinkDown = true
				what = "new-replica-linkdown"
			default:
				what = "new-replica"
			}
			t.Nodes = append(t.Nodes, n)
		case 3: // a replica disappears
			if len(replicas) == 0 {
				continue
			}
			ri := replicas[g.R.Intn(len(replicas))]
			t.Nodes = append(t.Nodes[:ri], t.Nodes[ri+1:]...)
			what = "replica-removed"
		case 4: // a replica gets a flag / loses its link
			if len(replicas) == 0 {
				continue
			}
			ri := replicas[g.R.Intn(len(replicas))]
			if !usableDesc(&t.Nodes[ri]) {
				continue
			}
			f := g.R.Pick([]string{"fail", "fail?", "handshake", "noaddr", "disconnected"})
			if f == "disconnected" {
				t.Nodes[ri].Link = "disconnected"
			} else {
				t.Nodes[ri].Flags = append(t.Nodes[ri].Flags, f)
			}
			what = "replica-" + f
		case 5: // a slot range (possibly a single slot) moves between masters
			if len(masters) < 2 {
				continue
			}
			a, b := masters[g.R.Intn(len(masters))], masters[g.R.Intn(len(masters))]
			if a == b {
				continue
			}
			r := t.Nodes[a].Slots[len(t.Nodes[a].Slots)-1]
			if r[1]-r[0] < 3 {
				continue
			}
			cut := r[1]
			if g.R.Pct(50) {
				cut = g.R.Range(r[0]+1, r[1])
			}
			t.Nodes[a].Slots[len(t.Nodes[a].Slots)-1] = [2]int{r[0], cut - 1}
			t.Nodes[b].Slots = append(t.Nodes[b].Slots, [2]int{cut, r[1]})
			what = "slots-moved"
		case 6: // a replica now follows another master
			if len(replicas) == 0 || len(masters) < 2 {
				continue
			}
			ri := replicas[g.R.Intn(len(replicas))]
			nm := t.Nodes[masters[g.R.Intn(len(masters))]].ID
			if nm == t.Nodes[ri].MasterID || !usableDesc(&t.Nodes[ri]) {
				continue
			}
			t.Nodes[ri].MasterID = nm
			what = "replica-reparented"
		case 7: // migration markers and extra columns on a master line
			mi := masters[g.R.Intn(len(masters))]
			t.Nodes[mi].Extra = []string{fmt.Sprintf("[%d->-%s]", t.Nodes[mi].Slots[0][0], t.Nodes[masters[0]].ID), fmt.Sprintf("[%d-<-%s]", g.R.Intn(16384), t.Nodes[masters[0]].ID)}
			what = "migration-markers"
		case 8: // a master is marked failed without a successor: its slots become unclaimed
			if len(masters) < 4 {
				continue
			}
			mi := masters[g.R.Intn(len(masters))]
			t.Nodes[mi].Flags = append(t.Nodes[mi].Flags, "fail")
			what = "master-failed"
		default: // a master without address / in handshake appears (must be ignored)
			a := newAddr()
			t.Nodes = append(t.Nodes, NodeDesc{ID: fmt.Sprintf("%040x", 0xf000+gen*256+len(t.Nodes)), Addr: a, Master: true, Flags: []string{g.R.Pick([]string{"handshake", "noaddr"})}})
			what = "ghost-master"
		}
		if usableCount(&t) < 3 {
			continue
		}
		if g.R.Pct(40) {
			t.Shuffle = g.R.Next() | 1 // the same nodes may be listed in another order in the next description
		}
		return t, what
	}
	return cloneTopo(prev), "none"
}

func (g *Gen) unusableAnswer(base *Topology) (string, []string) {
	switch g.R.Intn(7) {
	case 0:
		return "error", []string{"-ERR This instance has cluster support disabled\r\n"}
	case 1:
		return "nil", []string{"$-1\r\n"}
	case 2:
		return "ok", []string{"+OK\r\n"}
	case 3:
		var b strings.Builder
		for b.Len() < 170000 {
			b.WriteString(base.Render(""))
		}
		return "oversized", []string{string(Bulk([]byte(b.String())))}
	case 4:
		txt := base.Render("")
		cut := strings.Index(txt, "\n")
		return "truncated", []string{string(Bulk([]byte(txt[:cut+20])))}
	case 5:
		two := Topology{Nodes: base.Nodes[:2]}
		return "too-few-nodes", []string{string(Bulk([]byte(two.Render(""))))}
	default:
		return "garbage", []string{string(Bulk([]byte("this is not a cluster nodes reply\nat all\n")))}
	}
}

func genC14(g *Gen) {
	p := g.Plan
	m := g.R.Range(3, 6)
	base := g.StdTopology(m, g.R.Range(0, 2), g.R.Pct(40))
	p.Topos = []Topology{base}
	p.Proxy.DisableSlave = g.R.Pct(30)
	p.Proxy.ServerConns = g.R.Range(1, 2)
	p.Proxy.BufCap = 65536
	g.cleanKernel()
	ever := map[string]bool{}
	for _, n := range base.Nodes {
		ever[n.Addr] = true
	}
	if p.Variant == "return" {
		// a replica the proxy knows drops out (flagged fail / link down / not listed) long enough for the proxy to have adopted
		// that, then comes back listed as a plain connected replica while its INFO still says loading or master link down (a
		// restarted replica during resync): it is newly discovered again and must not get reads.
		base = g.StdTopology(m, g.R.Range(1, 2), g.R.Pct(40))
		p.Topos = []Topology{base}
		p.Proxy.DisableSlave = false
		var reps []int
		for i, n := range base.Nodes {
			if !n.Master {
				reps = append(reps, i)
			}
		}
		ri := reps[g.R.Intn(len(reps))]
		gone := cloneTopo(base)
		how := g.R.Pick([]string{"fail", "disconnected", "absent"})
		switch how {
		case "fail":
			gone.Nodes[ri].Flags = append(gone.Nodes[ri].Flags, "fail")
		case "disconnected":
			gone.Nodes[ri].Link = "disconnected"
		default:
			gone.Nodes = append(gone.Nodes[:ri], gone.Nodes[ri+1:]...)
		}
		back := cloneTopo(base)
		state := "healthy"
		switch g.R.Intn(3) {
		case 0:
			back.Nodes[ri].Loading = true
			state = "loading"
		case 1:
			back.Nodes[ri].LinkDown = true
			state = "linkdown"
		}
		p.Topos = append(p.Topos, gone, back)
		p.Hist = append(p.Hist, HistStep{Topo: 1, Secs: 6, Mutated: "return:replica-" + how}, HistStep{Topo: 2, Secs: g.R.Range(1, 3), Mutated: "return:replica-back-" + state})
		g.c14Prober(back)
		return
	}
	steps := g.R.Range(1, 4)
	if p.Variant == "long" {
		steps = g.R.Range(4, 8)
	}
	cur := base
	if p.Variant == "flap" {
		steps = []int{3, 3, 6, 4, 5}[g.R.Intn(5)]
	}
	for h := 1; h <= steps; h++ {
		nt, what := g.mutateTopo(cur, h, ever)
		if g.R.Pct(40) {
			nt2, w2 := g.mutateTopo(nt, h+20, ever)
			nt, what = nt2, what+"+"+w2
		}
		if p.Variant == "flap" {
			// A -> B (other node count) -> C (A's node count again, different content) -> A -> ...: descriptions come back
			switch h % 3 {
			case 1:
				nt = cloneTopo(cur)
				nt.Nodes = append(nt.Nodes, NodeDesc{ID: fmt.Sprintf("%040x", 0xe500+h), Addr: fmt.Sprintf("10.2.%d.1:7000", h), MasterID: cur.Nodes[0].ID})
				ever[nt.Nodes[len(nt.Nodes)-1].Addr] = true
				what = "flap:new-replica"
			case 2:
				nt = cloneTopo(p.Topos[h-2])
				var masters []int
				for i, n := range nt.Nodes {
					if n.Master && len(n.Slots) > 0 && usableDesc(&nt.Nodes[i]) {
						masters = append(masters, i)
					}
				}
				a, b := masters[0], masters[len(masters)-1]
				r := nt.Nodes[a].Slots[len(nt.Nodes[a].Slots)-1]
				if r[1]-r[0] > 3 {
					cut := g.R.Range(r[0]+1, r[1])
					nt.Nodes[a].Slots[len(nt.Nodes[a].Slots)-1] = [2]int{r[0], cut - 1}
					nt.Nodes[b].Slots = append(nt.Nodes[b].Slots, [2]int{cut, r[1]})
				}
				what = "flap:same-count-slots-moved"
			case 0:
				nt = cloneTopo(p.Topos[h-3])
				what = "flap:back-to-earlier"
			}
		} else if h >= 2 && g.R.Pct(20) {
			back := g.R.Intn(h - 1)
			nt, what = cloneTopo(p.Topos[back]), fmt.Sprintf("revert-to-%d", back)
		}
		p.Topos = append(p.Topos, nt)
		hs := HistStep{Topo: h, Secs: g.R.Range(2, 5), Mutated: what}
		if g.R.Pct(35) {
			hs.Secs = 1 // the description is in force for about one probe only
		}
		if p.Variant == "flap" {
			// the two intermediate descriptions are each in force for one probe period, the returning one for longer
			hs.Secs = 1
			if h%3 == 0 {
				hs.Secs = g.R.Range(2, 4)
			}
		}
		if g.R.Pct(30) && p.Variant != "flap" {
			for _, n := range cur.Nodes {
				if g.R.Pct(40) {
					hs.Lag = append(hs.Lag, n.Addr)
				}
			}
		}
		if p.Variant != "valid-only" && g.R.Pct(45) {
			hs.Kind, hs.Script = g.unusableAnswer(&cur)
			if g.R.Pct(30) {
				hs.Script = append(hs.Script, hs.Script[0])
			}
		}
		p.Hist = append(p.Hist, hs)
		cur = nt
	}
	g.c14Prober(p.Topos[len(p.Topos)-1])
}

// c14Prober: after convergence, one write and three reads per boundary slot of the final description plus random slots.
func (g *Gen) c14Prober(final Topology) {
	p := g.Plan
	slots := map[int]bool{}
	for _, n := range final.Nodes {
		for _, r := range n.Slots {
			slots[r[0]], slots[r[1]] = true, true
			if r[0] > 0 {
				slots[r[0]-1] = true
			}
			if r[1] < 16383 {
				slots[r[1]+1] = true
			}
		}
	}
	for i := 0; i < 24; i++ {
		slots[g.R.Intn(16384)] = true
	}
	cp := ClientPlan{Addr: clientAddr(0), Mode: "closed", CloseAfterSent: -1, CloseAfterReplies: -1}
	ri := 0
	for s := 0; s < 16384; s++ {
		if !slots[s] {
			continue
		}
		tok := Tok(0, ri)
		cp.Reqs = append(cp.Reqs, g.Single(tok, "set", Key(tok, 0, s, ""), "v"))
		ri++
		// several reads so that replica choice shows
		for k := 0; k < 3; k++ {
			tok = Tok(0, ri)
			cp.Reqs = append(cp.Reqs, g.Single(tok, "get", Key(tok, 0, s, "")))
			ri++
		}
	}
	p.Clients = append(p.Clients, cp)
}

func (d *Driver) setScripts(script []string) {
	for _, a := range d.C.NodeAddrs() {
		d.C.Nodes[a].ProbeScript = append([]string(nil), script...)
	}
}

// yield points in the refresh goroutine (verifhook.Yield in core/cluster.go): in the "yield" variant the goroutine is
// parked there for a tape-chosen number of 50 ms rounds, so that ticker() runs against a half-published update
// (ServerMap already replaced, Replicasets / serverChanged not yet).
type parkedYield struct {
	point   string
	resume  chan struct{}
	rounds  int
	decided bool
}

func (d *Driver) installYield() {
	verifhook.OnYield = func(point string) {
		py := &parkedYield{point: point, resume: make(chan struct{})}
		d.parked = py // only the single refresh goroutine yields; the driver is waiting for quiescence meanwhile
		<-py.resume
	}
}

// serviceYield is called once per fair round by the driver.
func (d *Driver) serviceYield() {
	py := d.parked
	if py == nil {
		return
	}
	if !py.decided {
		py.decided = true
		py.rounds = 0
		if d.parkEnabled {
			py.rounds = []int{0, 0, 1, 5, 21, 45}[d.T.Choose(6)]
		}
		d.count("yield_parked_" + py.point)
		d.trace("refresh goroutine parked at %s for %d rounds", py.point, py.rounds)
	}
	if py.rounds > 0 && d.parkEnabled {
		py.rounds--
		return
	}
	d.parked = nil
	close(py.resume)
	d.quiesce()
}

func runC14(d *Driver, res *Result) {
	p := d.P
	if p.Variant == "yield" {
		d.installYield()
	}
	d.Hold = map[int]bool{0: true}
	d.boot()
	res.Converged = d.converge(15 * time.Second)
	if !res.Converged {
		res.Error = "proxy did not adopt the initial topology"
		return
	}
	const tick = 50 * time.Millisecond
	lastKind := "none"
	d.parkEnabled = true // the refresh goroutine is only delayed during the history, never in the phases a bound is measured in
	for _, hs := range p.Hist {
		prev := d.C.Truth
		d.C.Truth = &p.Topos[hs.Topo]
		d.C.EnsureNodes(d.C.Truth)
		for _, a := range d.C.NodeAddrs() {
			d.C.Nodes[a].View = nil
		}
		for _, a := range hs.Lag {
			if n := d.C.Nodes[a]; n != nil {
				n.View = prev
			}
		}
		if len(hs.Script) > 0 {
			d.setScripts(hs.Script)
			lastKind = hs.Kind
			d.count("c14_unusable_" + hs.Kind)
		}
		d.trace("history: truth := topology %d (%s), %d lagging nodes, unusable answers first: %s", hs.Topo, hs.Mutated, len(hs.Lag), hs.Kind)
		d.fairRunTick(hs.Secs*1000/50/2, nil, tick)
		for _, a := range d.C.NodeAddrs() {
			d.C.Nodes[a].View = nil // the lagging nodes catch up
		}
		d.fairRunTick(hs.Secs*1000/50/2, nil, tick)
	}
	// final phase: every node serves the final description D
	d.parkEnabled = false
	d.setScripts(nil)
	final := d.C.Truth
	if p.Variant == "yield" {
		// the injected stall of the refresh goroutine has ended; let it work off what queued up behind it (at most the three
		// buffered probe replies) before the convergence bound starts - bounds are never measured while a fault is in effect
		d.fairRunTick(120, nil, tick)
	}
	mark := len(d.C.Log)
	var tD time.Duration = -1
	deadline := time.Now().Add(30 * time.Second)
	for time.Now().Before(deadline) {
		d.fairRunTick(4, nil, tick)
		if tD < 0 {
			for _, r := range d.C.Log[mark:] {
				if r.Kind == "probe" && r.Name == "cluster" && r.Released {
					tD = r.RelAt
					break
				}
			}
		}
		if tD >= 0 && time.Since(d.Start)-tD >= 3*time.Second {
			break
		}
	}
	det := map[string]string{"after": lastKind}
	if tD < 0 {
		d.violate("C14", "refresh-stalled", det, "every node is reachable and serves the final description, but the proxy consumed no probe reply for 30 fake seconds (last unusable answer kind: %s)", lastKind)
		return
	}
	// nodes the proxy may already know from an earlier description without the INFO restriction applying
	everAdmitted := map[string]bool{}
	for ti := 0; ti < len(p.Topos)-1; ti++ {
		for i := range p.Topos[ti].Nodes {
			n := &p.Topos[ti].Nodes[i]
			if usableDesc(n) && (n.Master || (!n.Loading && !n.LinkDown)) {
				everAdmitted[n.Addr] = true
			}
		}
	}
	// a node that was unusable or not listed in the description in force right before the final one, for at least 6 s, on
	// every node and without unusable answers, has been dropped by a proxy that converges (this property's own bound is 3 s):
	// the final description discovers it anew
	if n := len(p.Hist); n >= 2 {
		prevStep := p.Hist[n-2]
		if prevStep.Secs >= 6 && len(prevStep.Lag) == 0 && len(prevStep.Script) == 0 && len(p.Hist[n-1].Lag) == 0 {
			pt := &p.Topos[prevStep.Topo]
			for a := range everAdmitted {
				if pn := pt.ByAddr(a); pn == nil || !usableDesc(pn) {
					delete(everAdmitted, a)
					d.count("c14_rediscovered_nodes")
				}
			}
		}
	}
	// route probing
	c := d.Clients[0]
	d.Hold[0] = false
	d.fairRunTick(20000, func() bool { return d.clientFinished(c) }, time.Millisecond)
	served := 0
	for i := range c.Plan.Reqs {
		rq := &c.Plan.Reqs[i]
		slot := RefSlot([]byte(rq.Keys[0]))
		owner := final.Owner(slot)
		if owner != nil && !usableDesc(owner) {
			owner = nil
		}
		var first *CmdRec
		for _, r := range d.recsFor(rq.Tok) {
			first = r
			break
		}
		if i >= len(c.Replies) {
			d.violate("C14", "probe-unanswered", det, "after convergence request %d (%s slot %d) got no reply", i, rq.Cmd, slot)
			break
		}
		isErr := len(c.Replies[i]) > 0 && c.Replies[i][0] == '-'
		if owner == nil {
			if first != nil || !isErr {
				where := "nowhere"
				if first != nil {
					where = first.Node
				}
				d.violate("C14", "stale-route", mapWith(det, "how", "unclaimed-slot-served"), "slot %d is claimed by no usable master in the final description, but %s was sent to %s / answered %q", slot, rq.Cmd, where, clip(c.Replies[i], 40))
				break
			}
			continue
		}
		if first == nil {
			d.violate("C14", "stale-route", mapWith(det, "how", "claimed-slot-refused"), "slot %d is claimed by %s in the final description, but %s was answered %q without reaching a backend", slot, owner.Addr, rq.Cmd, clip(c.Replies[i], 60))
			break
		}
		served++
		node := final.ByAddr(first.Node)
		if rq.Cmd == "set" || p.Proxy.DisableSlave {
			if first.Node != owner.Addr {
				d.violate("C14", "stale-route", mapWith(det, "how", "wrong-master"), "%s for slot %d went to %s, the final description gives the slot to %s", rq.Cmd, slot, first.Node, owner.Addr)
				break
			}
			continue
		}
		if first.Node == owner.Addr {
			continue
		}
		ok := node != nil && !node.Master && node.MasterID == owner.ID
		why := "not a replica of the owner"
		if ok && !usableDesc(node) {
			softOnly := true
			for _, f := range node.Flags {
				if f != "fail?" {
					softOnly = false
				}
			}
			if !(softOnly && (node.Link == "" || node.Link == "connected")) {
				ok, why = false, "flagged "+strings.Join(node.Flags, ",")+" link="+node.Link
			}
		}
		if ok && (node.Loading || node.LinkDown) && !everAdmitted[node.Addr] {
			// the statement excludes *newly discovered* replicas in that state; one the proxy already knew from an earlier
			// description (as a master, or as a healthy replica) is not re-examined, either outcome is accepted for it
			ok, why = false, "newly discovered replica that is loading / has its master link down"
		}
		if !ok {
			d.violate("C14", "stale-route", mapWith(det, "how", "forbidden-replica"), "read for slot %d (owner %s) went to %s: %s", slot, owner.Addr, first.Node, why)
			break
		}
	}
	if len(d.Viol) == 0 {
		for _, r := range d.C.Log[mark:] {
			if r.Kind == "redirect" && len(r.Tokens) > 0 {
				d.violate("C14", "stale-route", mapWith(det, "how", "redirected-after-convergence"), "%s for %q was sent to %s, which answered %q although every node has been serving the final description for more than 3 s", r.Name, clip(keysFirst(r), 40), r.Node, clip(r.Reply, 50))
				break
			}
		}
	}
	d.Counters["c14_history_steps"] = len(p.Hist)
	d.Counters["c14_probe_requests_served"] = served
	res.Nontrivial = len(p.Hist) > 0 && served > 0
	var hist []string
	for _, hs := range p.Hist {
		s := hs.Mutated
		if hs.Kind != "" {
			s += " after unusable:" + hs.Kind
		}
		if len(hs.Lag) > 0 {
			s += fmt.Sprintf(" (%d nodes lag)", len(hs.Lag))
		}
		hist = append(hist, s)
	}
	res.Sample = fmt.Sprintf("history: %s; final description has %d nodes; %d routing probes", strings.Join(hist, " -> "), len(final.Nodes), len(c.Plan.Reqs))
}

func mapWith(m map[string]string, k, v string) map[string]string {
	o := map[string]string{}
	for a, b := range m {
		o[a] = b
	}
	o[k] = v
	return o
}

// ---- C20: reads are spread over all healthy replicas ----

func init() {
	register(&Profile{Name: "C20", Prop: "C20", Gen: genC20, Check: checkC20})
}

func genC20(g *Gen) {
	p := g.Plan
	m := g.R.Range(3, 4)
	r := g.R.Range(2, 4)
	base := g.StdTopology(m, r, false)
	p.Topos = []Topology{base}
	p.Proxy.DisableSlave = false
	p.Proxy.ServerConns = g.R.Range(1, 2)
	p.Proxy.BufCap = 65536
	g.cleanKernel()
	p.Sched.MaxSteps = 20000
	p.Sched.ChunkPct = 10
	if p.Variant == "banned" {
		// one replica refuses connections for the whole run: nothing is asserted about it
		var reps []string
		for _, n := range base.Nodes {
			if !n.Master {
				reps = append(reps, n.Addr)
			}
		}
		p.Events = append(p.Events, Event{Kind: "node-down", When: When{Step: 1}, Node: reps[g.R.Intn(len(reps))]})
	}
	reads := []string{"get", "strlen", "exists", "ttl", "type", "hgetall", "llen", "scard", "zcard", "smembers", "hlen", "pttl"}
	if p.Variant == "closed" {
		// strictly sequential reads (one request in flight at a time: every request is decoded into the same recycled object),
		// most of them for one master
		hot := g.R.Intn(m)
		cp := ClientPlan{Addr: clientAddr(0), Mode: "closed", CloseAfterSent: -1, CloseAfterReplies: -1, StartStep: 2}
		for ri := 0; ri < 330; ri++ {
			tok := Tok(0, ri)
			mi := hot
			rg := base.Nodes[mi].Slots[0]
			cp.Reqs = append(cp.Reqs, g.Single(tok, g.R.Pick(reads), Key(tok, 0, g.R.Range(rg[0], rg[1]), "")))
		}
		p.Clients = append(p.Clients, cp)
		p.Sched.MaxSteps = 30000
		p.Sched.WTime = 0
		p.Sched.ChunkPct = 0 // whole requests, whole replies: a partially received request costs a fresh request object
		return
	}
	if p.Variant == "recover" {
		// a replica is unreachable for a while (dial failures, ban), comes back, and long after that (20 fake seconds: the pool
		// monitor probes every 5 s) a long run of reads must reach it again like every other healthy replica
		var reps []string
		for _, n := range base.Nodes {
			if !n.Master {
				reps = append(reps, n.Addr)
			}
		}
		victim := reps[g.R.Intn(len(reps))]
		vm := base.ByID(base.ByAddr(victim).MasterID)
		up := g.R.Range(1500, 4000)
		p.Events = append(p.Events, Event{Kind: "node-down", When: When{Step: 1}, Node: victim},
			Event{Kind: "node-up", When: When{AfterMs: up}, Node: victim})
		// sparse reads of the victim's master during the outage (pauses longer than the retry/ban period)
		c0 := ClientPlan{Addr: clientAddr(0), Mode: "open", GapMs: g.R.Range(150, 900), CloseAfterSent: -1, CloseAfterReplies: -1, StartStep: 3}
		for ri, n := 0, g.R.Range(6, 24); ri < n; ri++ {
			tok := Tok(0, ri)
			rg := vm.Slots[0]
			c0.Reqs = append(c0.Reqs, g.Single(tok, "get", Key(tok, 0, g.R.Range(rg[0], rg[1]), "")))
		}
		p.Clients = append(p.Clients, c0)
		c1 := ClientPlan{Addr: clientAddr(1), Mode: "pipeline", CloseAfterSent: -1, CloseAfterReplies: -1, StartAfterMs: up + 20000}
		ri := 0
		for mi := 0; mi < m; mi++ {
			rg := base.Nodes[mi].Slots[0]
			for k := 0; k < 300; k++ {
				tok := Tok(1, ri)
				c1.Reqs = append(c1.Reqs, g.Single(tok, g.R.Pick(reads), Key(tok, 0, g.R.Range(rg[0], rg[1]), "")))
				ri++
			}
		}
		for i := len(c1.Reqs) - 1; i > 0; i-- {
			j := g.R.Intn(i + 1)
			c1.Reqs[i], c1.Reqs[j] = c1.Reqs[j], c1.Reqs[i]
		}
		p.Clients = append(p.Clients, c1)
		p.Sched.SettleS = 4
		p.Notes = append(p.Notes, fmt.Sprintf("replica %s down for %d ms", victim, up))
		return
	}
	if p.Variant == "pattern" {
		// regular request orders: one client repeats a short cycle of (master, read|write) steps - strict rotation over the
		// masters, write-then-read pairs, runs of equal masters. A replica choice that is not independent of the request
		// sequence (a shared counter, a hash of the position, ...) shows up as a replica that is never chosen.
		L := g.R.Range(2, 8)
		type stepT struct {
			m     int
			write bool
		}
		var cyc []stepT
		switch g.R.Intn(4) {
		case 0: // strict rotation over the first k masters
			k := g.R.Range(2, m)
			for i := 0; i < k; i++ {
				cyc = append(cyc, stepT{i, false})
			}
		case 1: // write-then-read pairs, master after master
			k := g.R.Range(2, m)
			for i := 0; i < k; i++ {
				cyc = append(cyc, stepT{i, true}, stepT{i, false})
			}
		default:
			for i := 0; i < L; i++ {
				cyc = append(cyc, stepT{g.R.Intn(m), g.R.Pct(25)})
			}
		}
		readsIn := map[int]int{}
		for _, st := range cyc {
			if !st.write {
				readsIn[st.m]++
			}
		}
		minReads := 1 << 30
		for _, n := range readsIn {
			if n < minReads {
				minReads = n
			}
		}
		if len(readsIn) == 0 {
			cyc = append(cyc, stepT{0, false})
			minReads = 1
		}
		reps := 260/minReads + 1
		if reps*len(cyc) > 2600 {
			reps = 2600 / len(cyc)
		}
		cp := ClientPlan{Addr: clientAddr(0), Mode: "pipeline", CloseAfterSent: -1, CloseAfterReplies: -1}
		oneCmd := g.R.Pct(50)
		ri := 0
		for rep := 0; rep < reps; rep++ {
			for _, st := range cyc {
				tok := Tok(0, ri)
				rg := base.Nodes[st.m].Slots[0]
				slot := g.R.Range(rg[0], rg[1])
				if st.write {
					cp.Reqs = append(cp.Reqs, g.Single(tok, "set", Key(tok, 0, slot, ""), "v"))
				} else if oneCmd {
					cp.Reqs = append(cp.Reqs, g.Single(tok, "get", Key(tok, 0, slot, "")))
				} else {
					cp.Reqs = append(cp.Reqs, g.Single(tok, g.R.Pick(reads), Key(tok, 0, slot, "")))
				}
				ri++
			}
		}
		p.Clients = append(p.Clients, cp)
		p.Notes = append(p.Notes, fmt.Sprintf("cycle %v x %d", cyc, reps))
		return
	}
	nc := g.R.Range(1, 3)
	perMaster := 300
	for ci := 0; ci < nc; ci++ {
		cp := ClientPlan{Addr: clientAddr(ci), Mode: "pipeline", CloseAfterSent: -1, CloseAfterReplies: -1, StartStep: g.R.Intn(5)}
		ri := 0
		for mi := 0; mi < m; mi++ {
			rg := base.Nodes[mi].Slots[0]
			for k := 0; k < perMaster/nc+1; k++ {
				tok := Tok(ci, ri)
				slot := g.R.Range(rg[0], rg[1])
				if g.R.Pct(10) {
					cp.Reqs = append(cp.Reqs, g.Single(tok, "set", Key(tok, 0, slot, ""), "v"))
				} else {
					cp.Reqs = append(cp.Reqs, g.Single(tok, g.R.Pick(reads), Key(tok, 0, slot, "")))
				}
				ri++
			}
		}
		// interleave the masters instead of visiting them one after the other
		for i := len(cp.Reqs) - 1; i > 0; i-- {
			j := g.R.Intn(i + 1)
			cp.Reqs[i], cp.Reqs[j] = cp.Reqs[j], cp.Reqs[i]
		}
		p.Clients = append(p.Clients, cp)
	}
}

func checkC20(d *Driver, res *Result) {
	t := &d.P.Topos[0]
	d.StdReplyCheck("C20", Relax{AllowProxyError: d.P.Variant == "banned" || d.P.Variant == "recover"})
	readsAt := map[string]int{}
	readsPerMaster := map[string]int{}
	var from time.Duration // variant recover: only the reads of the late client count (long after the replica came back)
	if d.P.Variant == "recover" && len(d.P.Clients) > 1 {
		from = d.WorkStart.Sub(d.Start) + time.Duration(d.P.Clients[1].StartAfterMs)*time.Millisecond
	}
	for _, r := range d.C.Log {
		if r.Kind != "data" || r.At < from {
			continue
		}
		node := t.ByAddr(r.Node)
		if node == nil {
			continue
		}
		if !IsReadCmd(r.Name) {
			if !node.Master {
				d.violate("C20", "write-at-replica", map[string]string{}, "%s arrived at replica %s", r.Name, r.Node)
				return
			}
			continue
		}
		readsAt[r.Node]++
		if node.Master {
			readsPerMaster[node.ID]++
		} else {
			readsPerMaster[node.MasterID]++
		}
	}
	down := map[string]bool{}
	for _, e := range d.P.Events {
		if e.Kind == "node-down" && d.P.Variant != "recover" {
			down[e.Node] = true
		}
	}
	if d.P.Variant == "recover" {
		d.Counters["c20_recover_dial_refused"] = d.Counters["dial_refused"]
	}
	starved := 0
	for _, n := range t.Nodes {
		if n.Master || down[n.Addr] {
			continue
		}
		if readsPerMaster[n.MasterID] < 200 {
			continue // not a sufficiently long run of reads for this master
		}
		if readsAt[n.Addr] == 0 {
			starved++
			if starved == 1 {
				d.violate("C20", "replica-never-read", map[string]string{}, "master %s received %d reads for its slots, its healthy replica %s served none of them (reads per node: %v)",
					n.MasterID[len(n.MasterID)-4:], readsPerMaster[n.MasterID], n.Addr, readsAt)
			}
		}
	}
	total := 0
	for _, v := range readsPerMaster {
		total += v
	}
	d.Counters["c20_reads"] = total
	res.Nontrivial = total > 300
	res.Sample = fmt.Sprintf("%d masters x %d replicas, %d reads; reads per node %v", countMasters(t), (len(t.Nodes)-countMasters(t))/countMasters(t), total, readsAt)
}
