package simrun

import (
	"fmt"
	"net"
	"os"
	"path/filepath"
	"strings"
	"time"

	"rcproxy/core/authip"
	"rcproxy/core/pkg/verifhook"
)

// ---- C18: IP whitelist admits exactly the configured addresses, also after reload ----
//
// Real files, real inotify (the event kinds the OS emits for the different ways of rewriting a file are exactly what
// the property depends on). Determinism comes from a barrier, not from timing: after each edit the harness writes a
// sentinel file in the same directory and waits until the watcher goroutine reports (verifhook.Event) that it has
// received the sentinel's event; inotify and the goroutine are FIFO, so every earlier event has been processed.

type wlState struct {
	dir    string
	events chan string
}

var wl *wlState

func wlRender(f WLFile) string {
	var b strings.Builder
	if !f.OmitEnable {
		fmt.Fprintf(&b, "enable: %v\n\n", f.Enable)
	} else {
		b.WriteString("# enable: true\n\n")
	}
	if f.OmitList {
		b.WriteString("# ip_white_list:\n")
		return b.String()
	}
	b.WriteString("ip_white_list:\n")
	for _, ip := range f.IPs {
		fmt.Fprintf(&b, "  - %s\n", ip)
	}
	return b.String()
}

// wlSetup runs before the synctest bubble exists, so that fsnotify's goroutines live outside it.
func wlSetup(p *Plan) error {
	dir := filepath.Join(os.TempDir(), fmt.Sprintf("simwl-%d-%d", os.Getpid(), time.Now().UnixNano()))
	if err := os.MkdirAll(dir, 0o700); err != nil {
		return err
	}
	wl = &wlState{dir: dir, events: make(chan string, 1024)}
	if err := os.WriteFile(filepath.Join(dir, "authip.yaml"), []byte(wlRender(p.Whitelist.Initial)), 0o644); err != nil {
		return err
	}
	verifhook.OnEvent = func(kind, arg string) {
		if kind == "authip.event" {
			select {
			case wl.events <- arg:
			default:
			}
		}
	}
	return authip.LoopIPWhiteList(dir, "authip.yaml")
}

func (w *wlState) barrier(n int) error {
	name := filepath.Join(w.dir, fmt.Sprintf("sentinel-%d", n))
	if err := os.WriteFile(name, []byte("x"), 0o644); err != nil {
		return err
	}
	deadline := time.After(10 * time.Second)
	for {
		select {
		case ev := <-w.events:
			if ev == name {
				return nil
			}
		case <-deadline:
			return fmt.Errorf("whitelist watcher did not report the sentinel event within 10 s real time")
		}
	}
}

func (w *wlState) apply(e WLEdit) error {
	path := filepath.Join(w.dir, "authip.yaml")
	body := []byte(wlRender(e.File))
	switch e.Kind {
	case "write":
		return os.WriteFile(path, body, 0o644)
	case "truncate-write":
		f, err := os.OpenFile(path, os.O_WRONLY|os.O_TRUNC, 0o644)
		if err != nil {
			return err
		}
		half := len(body) / 2
		if _, err := f.Write(body[:half]); err != nil {
			return err
		}
		f.Sync()
		_, err = f.Write(body[half:])
		f.Close()
		return err
	case "invalid-then-valid":
		if err := os.WriteFile(path, []byte("enable: [this is: not\n  valid yaml\n"), 0o644); err != nil {
			return err
		}
		return os.WriteFile(path, body, 0o644)
	case "delete-recreate":
		if err := os.Remove(path); err != nil {
			return err
		}
		return os.WriteFile(path, body, 0o644)
	case "rename-over":
		tmp := filepath.Join(w.dir, ".authip.yaml.tmp")
		if err := os.WriteFile(tmp, body, 0o644); err != nil {
			return err
		}
		return os.Rename(tmp, path)
	}
	return fmt.Errorf("unknown edit kind %q", e.Kind)
}

func init() {
	register(&Profile{Name: "C18", Prop: "C18", Gen: genC18, Run: runC18})
}

var wlPool4 = []string{"192.168.7.1", "192.168.7.2", "10.20.30.40", "172.16.5.9", "8.8.8.8", "127.0.0.1", "192.168.7.10", "1.2.3.4"}
var wlPool6 = []string{"2001:db8::5", "fd00::1:2", "::1"}

func genC18(g *Gen) {
	p := g.Plan
	p.Topos = []Topology{g.StdTopology(3, 0, false)}
	p.Proxy.DisableSlave = true
	p.Proxy.BufCap = 65536
	g.cleanKernel()
	randFile := func() WLFile {
		f := WLFile{Enable: g.R.Pct(80)}
		n := g.R.Range(0, 6)
		seen := map[string]bool{}
		for i := 0; i < n; i++ {
			ip := g.R.Pick(wlPool4)
			if g.R.Pct(15) && p.Variant != "v4" {
				ip = g.R.Pick(wlPool6)
			}
			if !seen[ip] {
				seen[ip] = true
				f.IPs = append(f.IPs, ip)
			}
		}
		return f
	}
	wlp := &WLPlan{Initial: randFile()}
	cur := wlp.Initial
	nEdits := g.R.Range(1, 10)
	kinds := []string{"write", "write", "truncate-write", "invalid-then-valid", "delete-recreate", "rename-over"}
	if p.Variant == "inplace" || p.Variant == "v4" {
		kinds = []string{"write", "truncate-write", "invalid-then-valid", "delete-recreate"}
	}
	for i := 0; i < nEdits; i++ {
		nf := WLFile{Enable: cur.Enable, IPs: append([]string(nil), cur.IPs...)}
		switch g.R.Intn(6) {
		case 0: // add
			nf.IPs = append(nf.IPs, g.R.Pick(wlPool4))
		case 1: // remove
			if len(nf.IPs) > 0 {
				k := g.R.Intn(len(nf.IPs))
				nf.IPs = append(nf.IPs[:k], nf.IPs[k+1:]...)
			}
		case 2: // replace all
			nf = randFile()
		case 3:
			nf.Enable = true
		case 4:
			nf.Enable = false
		default:
			if g.R.Pct(50) && p.Variant != "v4" {
				nf.IPs = append(nf.IPs, g.R.Pick(wlPool6))
			}
		}
		// dedupe
		seen := map[string]bool{}
		var ips []string
		for _, ip := range nf.IPs {
			if !seen[ip] {
				seen[ip] = true
				ips = append(ips, ip)
			}
		}
		nf.IPs = ips
		nf.OmitEnable, nf.OmitList = false, false
		switch {
		case g.R.Pct(20) && len(nf.IPs) > 0:
			// duplicate entries (the admitted set is still the set of distinct addresses)
			for k := g.R.Range(1, 2); k > 0; k-- {
				at := g.R.Intn(len(nf.IPs) + 1)
				dup := nf.IPs[g.R.Intn(len(nf.IPs))]
				nf.IPs = append(nf.IPs[:at], append([]string{dup}, nf.IPs[at:]...)...)
			}
		case g.R.Pct(8):
			// the list block is deleted / commented out: nobody is listed any more
			nf.IPs, nf.OmitList = nil, true
		case g.R.Pct(8):
			// the enable line is deleted: the whitelist is off
			nf.Enable, nf.OmitEnable = false, true
		}
		wlp.Edits = append(wlp.Edits, WLEdit{Kind: g.R.Pick(kinds), File: nf})
		cur = nf
	}
	p.Whitelist = wlp
	// probe clients per phase (0 = initial file, i = after edit i)
	everListed := map[string]bool{}
	ci := 0
	files := append([]WLFile{wlp.Initial}, nil...)
	for _, e := range wlp.Edits {
		files = append(files, e.File)
	}
	for ph, f := range files {
		for _, ip := range f.IPs {
			everListed[ip] = true
		}
		var addrs []string
		if len(f.IPs) > 0 {
			addrs = append(addrs, f.IPs[g.R.Intn(len(f.IPs))], f.IPs[g.R.Intn(len(f.IPs))])
		}
		addrs = append(addrs, g.R.Pick(wlPool4), g.R.Pick(wlPool4), "203.0.113.77")
		if p.Variant != "v4" {
			addrs = append(addrs, g.R.Pick(wlPool6))
		}
		for ip := range everListed { // formerly listed (map order is pinned by the runtime overlay)
			in := false
			for _, x := range f.IPs {
				in = in || x == ip
			}
			if !in {
				addrs = append(addrs, ip)
				break
			}
		}
		sortStrings(addrs)
		for _, ip := range addrs {
			tok := Tok(ci, 0)
			cp := ClientPlan{Addr: net.JoinHostPort(ip, fmt.Sprint(40000+ci)), Mode: "pipeline", CloseAfterSent: -1, CloseAfterReplies: -1, Phase: ph}
			cp.Reqs = append(cp.Reqs, g.Local(tok, "ping", RPong))
			t2 := Tok(ci, 1)
			cp.Reqs = append(cp.Reqs, g.Single(t2, "get", Key(t2, 0, -1, "")))
			p.Clients = append(p.Clients, cp)
			ci++
		}
	}
}

func runC18(d *Driver, res *Result) {
	p := d.P
	if wl == nil {
		res.Error = "whitelist watcher was not set up"
		return
	}
	defer os.RemoveAll(wl.dir)
	d.Hold = map[int]bool{}
	for i := range d.Clients {
		d.Hold[i] = true
	}
	d.boot()
	res.Converged = d.converge(15 * time.Second)
	if !res.Converged {
		res.Error = "proxy did not adopt the initial topology"
		return
	}
	files := []WLFile{p.Whitelist.Initial}
	kinds := []string{"initial"}
	for _, e := range p.Whitelist.Edits {
		files = append(files, e.File)
		kinds = append(kinds, e.Kind)
	}
	admitted, rejected := 0, 0
	for ph, f := range files {
		if ph > 0 {
			if err := wl.apply(p.Whitelist.Edits[ph-1]); err != nil {
				res.Error = "whitelist edit failed: " + err.Error()
				return
			}
		}
		if err := wl.barrier(ph); err != nil {
			res.Error = err.Error()
			return
		}
		d.trace("whitelist phase %d (%s): enable=%v ips=%v", ph, kinds[ph], f.Enable, f.IPs)
		var mine []*ClientState
		for _, c := range d.Clients {
			if c.Plan.Phase == ph {
				d.Hold[c.Idx] = false
				mine = append(mine, c)
			}
		}
		d.fairRunTick(400, func() bool {
			for _, c := range mine {
				if !d.clientFinished(c) {
					return false
				}
			}
			return true
		}, time.Millisecond)
		for _, c := range mine {
			host, _, _ := net.SplitHostPort(c.Plan.Addr)
			listed := false
			for _, ip := range f.IPs {
				listed = listed || ip == host
			}
			want := !f.Enable || listed
			recs := d.recsFor(c.Plan.Reqs[1].Tok)
			gotAdmitted := len(c.Replies) == 2 && string(c.Replies[0]) == RPong && len(recs) > 0
			gotRejected := c.Sock != nil && c.Sock.Closed() && len(c.Replies) == 0 && c.Sock.TotalWritten == 0 && len(recs) == 0
			fam := "v4"
			if strings.Contains(host, ":") {
				fam = "v6"
			}
			// what distinguishes this address in the edit history
			hist := "never-listed"
			for _, pf := range files[:ph] {
				for _, ip := range pf.IPs {
					if ip == host {
						hist = "listed-before"
					}
				}
			}
			if listed {
				hist = "listed-now"
			}
			det := map[string]string{"edit": kinds[ph], "addr": fam, "history": hist, "enabled": fmt.Sprint(f.Enable)}
			switch {
			case want && gotAdmitted:
				admitted++
			case !want && gotRejected:
				rejected++
			case want:
				d.violate("C18", "listed-address-rejected", det, "phase %d (%s): %s must be admitted (enable=%v, list=%v) but got %d replies, closed=%v, %d bytes written to it, %d backend commands",
					ph, kinds[ph], host, f.Enable, f.IPs, len(c.Replies), c.Sock != nil && c.Sock.Closed(), sockWritten(c), len(recs))
			default:
				d.violate("C18", "unlisted-address-admitted", det, "phase %d (%s): %s must be rejected without any reply (enable=%v, list=%v) but got %d replies, closed=%v, %d bytes written to it, %d backend commands",
					ph, kinds[ph], host, f.Enable, f.IPs, len(c.Replies), c.Sock != nil && c.Sock.Closed(), sockWritten(c), len(recs))
			}
		}
		if len(d.Viol) > 0 {
			break
		}
	}
	d.Counters["c18_admitted"] = admitted
	d.Counters["c18_rejected"] = rejected
	d.Counters["c18_edits"] = len(p.Whitelist.Edits)
	res.Nontrivial = admitted > 0 && rejected > 0
	res.Sample = fmt.Sprintf("initial %v, edits: %s; %d probes admitted, %d rejected", p.Whitelist.Initial, strings.Join(kinds[1:], ","), admitted, rejected)
}

func sockWritten(c *ClientState) int {
	if c.Sock == nil {
		return 0
	}
	return c.Sock.TotalWritten
}
