package simrun

import (
	"bytes"
	"fmt"
	"sort"
	"strings"
	"time"
)

var varExtra = map[string]bool{"set": true, "hmset": true, "lpush": true, "rpush": true, "sadd": true, "srem": true, "zadd": true,
	"hdel": true, "hmget": true, "sort": true, "bitcount": true, "srandmember": true, "zrange": true}

// exotic argument bytes (never '~', '{' or '}' so that they cannot form a directive or a hash tag)
func (g *Gen) exotic(maxBig int) string {
	switch g.R.Intn(12) {
	case 0:
		return ""
	case 1:
		return string([]byte{byte(g.R.Intn(256))})
	case 2:
		return "a\x00b\x00\xff\xfe"
	case 3:
		return "line1\r\nline2\r\n"
	case 4:
		return "\r"
	case 5:
		return "\n"
	case 6:
		return "*3\r\n$3\r\nset\r\n"
	case 7:
		return "$-1\r\n+OK\r\n-ERR x\r\n:1\r\n"
	case 8:
		return strings.Repeat("x", 1024)
	case 9:
		n := []int{65535, 65536, 65537, 4095, 4097}[g.R.Intn(5)]
		if n > maxBig {
			n = maxBig
		}
		b := make([]byte, n)
		for i := range b {
			b[i] = byte('A' + (i*7)%26)
		}
		return string(b)
	case 10:
		b := make([]byte, g.R.Range(1, 40))
		for i := range b {
			c := byte(g.R.Intn(256))
			if c == '~' || c == '{' || c == '}' {
				c = '.'
			}
			b[i] = c
		}
		return string(b)
	}
	return fmt.Sprintf("plain%d", g.R.Intn(1000))
}

func (g *Gen) fullSingle(tok, cmd string, slot int, keySuffix string, maxBig int) ReqPlan {
	key := Key(tok, 0, slot, keySuffix)
	n := MinArgs(cmd)
	if RedisArity[cmd] < 0 && varExtra[cmd] && g.R.Pct(40) {
		n += g.R.Range(1, 3)
		if cmd == "hmset" || cmd == "zadd" {
			n += n % 2 // keep pairs
			if (n-MinArgs(cmd))%2 == 1 {
				n++
			}
		}
	}
	var extra []string
	for i := 0; i < n; i++ {
		extra = append(extra, g.exotic(maxBig))
	}
	return g.Single(tok, cmd, key, extra...)
}

func (g *Gen) evalReq(tok string, slot int, suffix string) ReqPlan {
	key := Key(tok, 0, slot, suffix)
	cmd := g.R.Pick([]string{"eval", "evalsha"})
	args := []string{g.CaseMix(cmd), "return redis.call('get',KEYS[1])", "1", key}
	if g.R.Pct(50) {
		args = append(args, g.exotic(1024))
	}
	return ReqPlan{Raw: EncodeCommandS(args...), Class: "single", Cmd: cmd, Keys: []string{key}, Tok: tok}
}

// lowerName returns raw with the command-name bulk lower-cased (what the backend must receive).
func lowerName(raw []byte) []byte {
	args, _, st, _ := ParseRedisQuery(raw)
	if st != QOk {
		return raw
	}
	cp := make([][]byte, len(args))
	for i, a := range args {
		cp[i] = a
	}
	cp[0] = bytes.ToLower(args[0])
	return EncodeCommand(cp...)
}

// ---- C02: byte-exact pass-through ----

func init() {
	register(&Profile{Name: "C02", Prop: "C02", Gen: genC02, Check: checkC02})
}

// c02SizeCap bounds argument and reply sizes when genC02 is reused by a profile with tiny socket buffers (C19): moving
// 200 KB through an 8-byte send buffer takes more polls than the settle phase allows and would look like a missing reply.
var c02SizeCap = 0

func genC02(g *Gen) {
	p := g.Plan
	p.Topos = []Topology{g.pickTopology()}
	g.swarmProxy()
	g.swarmKernel(false)
	p.Proxy.BufCap = []int{16, 64, 257, 4096, 65536}[g.R.Intn(5)]
	maxBig := 70000
	sizeCap := c02SizeCap
	if sizeCap == 0 && (p.Kernel.ClientSndCap < 512 || p.Kernel.BackendSndCap < 512 || p.Proxy.BufCap < 257) {
		sizeCap = 20000 // keep transfers through tiny send buffers within the settle phase's step budget
	}
	if sizeCap > 0 {
		maxBig = sizeCap
	}
	if p.Variant == "big" {
		maxBig = 1 << 22
		p.Proxy.MsgMax = []int{6 << 20, 3 << 20}[g.R.Intn(2)]
		p.Proxy.BufCap = 65536 // see genC17: small read buffers make MiB messages quadratic
		p.Sched.MaxSteps = 3000
	}
	if p.Variant == "aligned" {
		// requests and replies that arrive split over several reads, with piece lengths related to the lengths of earlier
		// messages on the same connection (see alignedChunks / Driver.alignedAmount); repeated message lengths on purpose
		g.cleanKernel()
		p.Proxy.BufCap = []int{4096, 65536}[g.R.Intn(2)]
		p.Proxy.ServerConns = 1
		p.Proxy.DisableSlave = true
		p.Sched.AlignedRelease = true
		p.Sched.MaxSteps = 6000
		lens := []int{g.R.Range(1, 40), g.R.Range(1, 40), g.R.Range(41, 300)}
		nc := g.R.Range(1, 2)
		for ci := 0; ci < nc; ci++ {
			cp := ClientPlan{Addr: clientAddr(ci), Mode: "pipeline", CloseAfterSent: -1, CloseAfterReplies: -1, StartStep: g.R.Intn(6)}
			slot := g.R.Intn(16384) // everything of this client on one node: many messages per backend connection
			for ri, n := 0, g.R.Range(6, 30); ri < n; ri++ {
				tok := Tok(ci, ri)
				l := lens[g.R.Intn(len(lens))] + g.R.Intn(2)
				if g.R.Pct(50) {
					cp.Reqs = append(cp.Reqs, g.Single(tok, "get", Key(tok, 0, slot, fmt.Sprintf("~S5~L%d", l))))
				} else {
					cp.Reqs = append(cp.Reqs, g.Single(tok, "set", Key(tok, 0, slot, "~S0"), strings.Repeat("v", l)))
				}
			}
			if g.R.Pct(70) {
				g.alignedChunks(&cp)
			}
			if ci == 1 && g.R.Pct(50) {
				// the second client only arrives when the first one is done and gone: same descriptor number, same message lengths
				cp.StartAfterClient = 1
				cp.StartStep = 0
				p.Clients[0].CloseAfterReplies = len(p.Clients[0].Reqs)
				tot := 0
				for _, r := range p.Clients[0].Reqs {
					tot += len(r.Raw)
				}
				p.Clients[0].CloseAfterSent = tot
			}
			p.Clients = append(p.Clients, cp)
		}
		return
	}
	cmds := LoadDocCommands().SingleKeyCmds()
	nc := g.R.Range(1, 3)
	for ci := 0; ci < nc; ci++ {
		cp := ClientPlan{Addr: clientAddr(ci), Mode: g.R.Pick([]string{"pipeline", "closed"}), CloseAfterSent: -1, CloseAfterReplies: -1,
			StartStep: g.R.Intn(10), Slow: g.R.Pct(25)}
		n := g.R.Range(1, 14)
		for ri := 0; ri < n; ri++ {
			tok := Tok(ci, ri)
			// round-robin over the table so that every command type appears within a batch, plus random ones
			cmd := cmds[int((p.Seed+uint64(ci*31+ri))%uint64(len(cmds)))]
			if g.R.Pct(30) {
				cmd = g.R.Pick(cmds)
			}
			suffix := ""
			if g.R.Pct(70) {
				suffix = fmt.Sprintf("~S%d", g.R.Intn(16))
				if g.R.Pct(25) {
					big := []int{0, 1, 1023, 65535, 65536, 65537, 200000}[g.R.Intn(7)]
					if sizeCap > 0 && big > sizeCap {
						big = sizeCap - g.R.Intn(3)
					}
					if p.Variant == "big" && g.R.Pct(30) {
						big = g.R.Range(1<<20, 5<<20)
					}
					suffix = fmt.Sprintf("~S%d~L%d", 5+g.R.Intn(2), big)
				}
			}
			if g.R.Pct(8) {
				cp.Reqs = append(cp.Reqs, g.evalReq(tok, -1, suffix))
			} else {
				cp.Reqs = append(cp.Reqs, g.fullSingle(tok, cmd, -1, suffix, maxBig))
			}
		}
		p.Clients = append(p.Clients, cp)
	}
}

func checkC02(d *Driver, res *Result) {
	d.StdReplyCheck("C02", Relax{})
	d.checkRawPassThrough("C02")
	big := 0
	for _, r := range d.C.Log {
		if r.Kind == "data" && (len(r.Reply) > 60000 || len(r.Raw) > 60000) {
			big++
		}
	}
	d.Counters["c02_big_messages"] = big
	res.Nontrivial = d.K.Stats.ShortReads+d.K.Stats.ShortWrites+d.K.Stats.EAGAINWrite > 0
	res.Sample = fmt.Sprintf("%d clients, %d single-key requests (bufcap %d, client sndbuf %d), %d big messages, %d short reads, %d short writes",
		len(d.Clients), totalReqs(d), d.P.Proxy.BufCap, d.P.Kernel.ClientSndCap, big, d.K.Stats.ShortReads, d.K.Stats.ShortWrites)
}

// checkRawPassThrough: the owning backend received the client's request bytes, only the command name lower-cased.
func (d *Driver) checkRawPassThrough(prop string) {
	for _, c := range d.Clients {
		for i := range c.Plan.Reqs {
			rq := &c.Plan.Reqs[i]
			if rq.Class != "single" {
				continue
			}
			want := lowerName(rq.Raw)
			for _, r := range d.recsFor(rq.Tok) {
				if r.Name != rq.Cmd {
					continue
				}
				if !bytes.Equal(r.Raw, want) {
					d.violate(prop, "request-altered", map[string]string{"cmd": rq.Cmd},
						"client %d request %d (%s): backend %s received %q, client sent %q", c.Idx, i, rq.Cmd, r.Node, clip(r.Raw, 120), clip(want, 120))
					return
				}
			}
		}
	}
}

// ---- C04: routing by slot and role; backend handshake ----

func init() {
	register(&Profile{Name: "C04", Prop: "C04", Gen: genC04, Check: checkC04})
}

var braceForms = []string{"}{%s", "{}%s", "{{%s}", "{%s", "%s}", "}%s{", "a{b}c{%s}", "{%s}{x}", "{}{%s}", "x{%s}y", "{a}{%s", "}}{{%s", "}{%s}", "a}b{%s}c", "}}{%s}{", "}{%s}{x}"}

func genC04(g *Gen) {
	p := g.Plan
	m := g.R.Range(3, 8)
	t := g.StdTopology(m, g.R.Range(0, 3), g.R.Pct(60))
	if g.R.Pct(20) {
		// single-slot ranges: carve a few single slots out for the last master
		last := &t.Nodes[m-1]
		for i := 0; i < 3; i++ {
			s := g.R.Intn(16384)
			for ni := 0; ni < m; ni++ {
				n := &t.Nodes[ni]
				var ns [][2]int
				for _, r := range n.Slots {
					if s < r[0] || s > r[1] {
						ns = append(ns, r)
						continue
					}
					if r[0] <= s-1 {
						ns = append(ns, [2]int{r[0], s - 1})
					}
					if s+1 <= r[1] {
						ns = append(ns, [2]int{s + 1, r[1]})
					}
				}
				n.Slots = ns
			}
			last.Slots = append(last.Slots, [2]int{s, s})
		}
	}
	if g.R.Pct(50) {
		// uneven replica counts: some masters lose some or all of their replicas (a replica-less set next to sets with replicas)
		var kept []NodeDesc
		drop := map[string]int{}
		for _, n := range t.Nodes {
			if n.Master {
				drop[n.ID] = g.R.Intn(4) // how many of its replicas go away
			}
		}
		for _, n := range t.Nodes {
			if !n.Master && drop[n.MasterID] > 0 {
				drop[n.MasterID]--
				continue
			}
			kept = append(kept, n)
		}
		t.Nodes = kept
	}
	if g.R.Pct(25) {
		// a gap in the slot space: one master gives up the upper half of a range and nobody claims it. Requests for those slots
		// (and multi-key requests with one key in the gap) are refused by the proxy; everything else must still be routed by
		// slot and role - also right after such a refusal.
		for try := 0; try < 10; try++ {
			n := &t.Nodes[g.R.Intn(m)]
			if len(n.Slots) > 0 {
				if r := n.Slots[0]; r[1]-r[0] > 20 {
					n.Slots[0] = [2]int{r[0], (r[0] + r[1]) / 2}
					break
				}
			}
		}
	}
	p.Topos = []Topology{t}
	g.swarmProxy()
	g.cleanKernel()
	p.Proxy.SeedAll = g.R.Pct(40)
	cmds := LoadDocCommands().SingleKeyCmds()
	nc := g.R.Range(1, 3)
	for ci := 0; ci < nc; ci++ {
		cp := ClientPlan{Addr: clientAddr(ci), Mode: "pipeline", CloseAfterSent: -1, CloseAfterReplies: -1, StartStep: g.R.Intn(10)}
		n := g.R.Range(5, 40)
		for ri := 0; ri < n; ri++ {
			tok := Tok(ci, ri)
			cmd := cmds[int((p.Seed*7+uint64(ci*131+ri))%uint64(len(cmds)))]
			var rq ReqPlan
			switch {
			case g.R.Pct(10):
				rq = g.evalReq(tok, g.R.Intn(16384), "~S5")
			case g.R.Pct(15):
				rq = g.randomSplit(tok, 5, 10)
			default:
				rq = g.fullSingle(tok, cmd, -1, "~S5", 64)
				// choose the key form: pinned slot / brace arrangement / plain
				var key string
				switch g.R.Intn(3) {
				case 0:
					slot := g.R.Intn(16384)
					if g.R.Pct(50) {
						slot = g.boundarySlot(&t)
					}
					key = Key(tok, 0, slot, "~S5")
				case 1:
					key = fmt.Sprintf(g.R.Pick(braceForms), tok+"k0~S5")
				default:
					key = Key(tok, 0, -1, "~S5")
				}
				args, _, _, _ := ParseRedisQuery(rq.Raw)
				a := make([][]byte, len(args))
				copy(a, args)
				a[1] = []byte(key)
				rq.Raw = EncodeCommand(a...)
				rq.Keys = []string{key}
			}
			for _, k := range rq.Keys {
				if t.Owner(RefSlot([]byte(k))) == nil {
					// a key in the unclaimed part of the slot space: the whole request is refused with an error (any error text)
					rq.Class, rq.Expect = "reject", []byte("-")
				}
			}
			cp.Reqs = append(cp.Reqs, rq)
		}
		p.Clients = append(p.Clients, cp)
	}
}

// boundarySlot: first / last slot of a random range of a random master, its outer neighbours, or the ends of the slot space.
func (g *Gen) boundarySlot(t *Topology) int {
	switch g.R.Intn(8) {
	case 0:
		return 0
	case 1:
		return 16383
	}
	for try := 0; try < 20; try++ {
		n := &t.Nodes[g.R.Intn(len(t.Nodes))]
		if len(n.Slots) == 0 {
			continue
		}
		r := n.Slots[g.R.Intn(len(n.Slots))]
		s := []int{r[0], r[1], r[0] - 1, r[1] + 1}[g.R.Intn(4)]
		if s >= 0 && s < 16384 {
			return s
		}
	}
	return g.R.Intn(16384)
}

func isScanOrScript(name string) bool {
	return name == "hscan" || name == "sscan" || name == "zscan" || name == "eval" || name == "evalsha"
}

func checkC04(d *Driver, res *Result) {
	t := &d.P.Topos[0]
	slots := map[int]bool{}
	replicaReads := 0
	for _, r := range d.C.Log {
		if r.Kind == "redirect" {
			d.violate("C04", "misrouted", map[string]string{"how": "redirected-in-stable-topology"},
				"%s %q was sent to %s which answered %q although the topology never changed", r.Name, clip(keysFirst(r), 60), r.Node, clip(r.Reply, 60))
			break
		}
		if r.Kind != "data" {
			continue
		}
		ks := keysOf(r.Name, r.Args)
		if len(ks) == 0 {
			continue
		}
		slot := RefSlot(ks[0])
		slots[slot] = true
		owner := t.Owner(slot)
		node := t.ByAddr(r.Node)
		if owner == nil || node == nil {
			continue
		}
		inSet := node.ID == owner.ID || (!node.Master && node.MasterID == owner.ID)
		if !inSet {
			d.violate("C04", "misrouted", map[string]string{"how": "wrong-replica-set"}, "%s key %q (slot %d, owner %s) arrived at %s", r.Name, clip(ks[0], 60), slot, owner.Addr, r.Node)
			break
		}
		mustMaster := !IsReadCmd(r.Name) || isScanOrScript(r.Name) || d.P.Proxy.DisableSlave
		if mustMaster && !node.Master {
			why := "write"
			if isScanOrScript(r.Name) {
				why = "scan-or-script"
			} else if IsReadCmd(r.Name) {
				why = "replica-reads-disabled"
			}
			d.violate("C04", "misrouted", map[string]string{"how": "replica-got-" + why}, "%s key %q (slot %d) arrived at replica %s", r.Name, clip(ks[0], 60), slot, r.Node)
			break
		}
		if !node.Master {
			replicaReads++
		}
	}
	// handshake on every backend connection
	d.checkHandshakes("C04", t)
	d.StdReplyCheck("C04", Relax{})
	d.Counters["c04_replica_reads"] = replicaReads
	d.Counters["c04_slots_hit"] = len(slots)
	res.Nontrivial = len(slots) > 3
	res.Sample = fmt.Sprintf("%d nodes (%d masters), password=%v, replica reads=%v, %d requests over %d distinct slots, %d reads served by replicas",
		len(t.Nodes), countMasters(t), d.P.Proxy.Password != "", !d.P.Proxy.DisableSlave, totalReqs(d), len(slots), replicaReads)
}

func keysFirst(r *CmdRec) []byte {
	if ks := keysOf(r.Name, r.Args); len(ks) > 0 {
		return ks[0]
	}
	return nil
}

func countMasters(t *Topology) int {
	n := 0
	for _, x := range t.Nodes {
		if x.Master {
			n++
		}
	}
	return n
}

// ---- C06 / C07: split and reassembly ----

func init() {
	register(&Profile{Name: "C06", Prop: "C06", Gen: genC06, Check: checkC06})
	register(&Profile{Name: "C07", Prop: "C07", Gen: genC07, Check: checkC07})
}

// digitSplit: a multi-key request whose per-slot key counts, key lengths and value lengths sit on the decimal-digit
// boundaries of the RESP encoding (9/10, 99/100, 999/1000): array headers and bulk length lines change their width there.
func (g *Gen) digitSplit(tok string, maxPerSlot int) ReqPlan {
	cmd := g.R.Pick([]string{"mget", "del", "mset"})
	counts := []int{1, 2, 8, 9, 10, 11, 98, 99, 100, 101}
	if maxPerSlot >= 1000 {
		counts = append(counts, 998, 999, 1000, 1001)
	}
	nslots := g.R.Range(2, 4)
	type kv struct{ k, v string }
	var all []kv
	idx := 0
	for si := 0; si < nslots; si++ {
		slot := g.R.Intn(16384)
		c := counts[g.R.Intn(len(counts))]
		if cmd == "mset" && g.R.Pct(50) {
			c = []int{4, 5, 49, 50, 499, 500}[g.R.Intn(6)] // 2c+1 arguments: 9/11, 99/101, 999/1001
			if c > maxPerSlot {
				c = 5
			}
		}
		for j := 0; j < c; j++ {
			k := Key(tok, idx, slot, "")
			if g.R.Pct(30) {
				// pad the key to a length on a digit boundary
				want := []int{9, 10, 99, 100}[g.R.Intn(4)]
				for len(k) < want {
					k += "p"
				}
			}
			v := fmt.Sprintf("v%d", idx)
			if g.R.Pct(30) {
				v = strings.Repeat("w", []int{0, 9, 10, 99, 100, 999, 1000}[g.R.Intn(7)])
			}
			all = append(all, kv{k, v})
			idx++
		}
	}
	// interleave the slots
	for i := len(all) - 1; i > 0; i-- {
		j := g.R.Intn(i + 1)
		all[i], all[j] = all[j], all[i]
	}
	var keys, vals []string
	for _, e := range all {
		keys = append(keys, e.k)
		vals = append(vals, e.v)
	}
	if cmd != "mset" {
		vals = nil
	}
	return g.Split(tok, cmd, keys, vals)
}

func (g *Gen) bigSplit(tok string, maxKeys int) ReqPlan {
	if maxKeys >= 30 && g.R.Pct(25) {
		return g.digitSplit(tok, maxKeys)
	}
	cmd := g.R.Pick([]string{"mget", "del", "mset"})
	n := g.R.Range(1, maxKeys)
	nslots := g.R.Range(1, min(n, 12))
	slots := make([]int, nslots)
	for i := range slots {
		slots[i] = g.R.Intn(16384)
	}
	var keys, vals []string
	hasZero := false
	for i := 0; i < n; i++ {
		switch {
		case len(keys) > 0 && g.R.Pct(15) && cmd != "mset":
			keys = append(keys, keys[g.R.Intn(len(keys))])
		case g.R.Pct(60):
			keys = append(keys, Key(tok, i, slots[g.R.Intn(nslots)], ""))
		case g.R.Pct(10):
			// binary-ish key with the token
			keys = append(keys, fmt.Sprintf("%sk%d\x00\r\n\xff", tok, i))
		case g.R.Pct(5) && !hasZero:
			// the empty key (slot 0) together with a tokened key pinned to slot 0, so that the fragment is attributable
			keys = append(keys, Key(tok, i, 0, ""), "")
			hasZero = true
		default:
			keys = append(keys, Key(tok, i, -1, ""))
		}
	}
	if cmd == "mset" {
		for i := range keys {
			vals = append(vals, g.R.Pick([]string{"", "v\r\n$1", fmt.Sprintf("val-%s-%d", tok, i), "\x00"}))
		}
	}
	return g.Split(tok, cmd, keys, vals)
}

func genC06(g *Gen) {
	p := g.Plan
	p.Topos = []Topology{g.StdTopology(g.R.Range(3, 6), 0, g.R.Pct(50))}
	g.swarmProxy()
	p.Proxy.Password = ""
	g.swarmKernel(false)
	maxKeys := []int{6, 30, 300}[g.R.Intn(3)]
	if p.Variant == "huge" {
		maxKeys = 5000
		p.Sched.MaxSteps = 1500
		p.Proxy.BufCap = 65536 // rcproxy re-parses the buffered request on every read: keep the harness knob at the shipped value for huge requests
	}
	nc := g.R.Range(1, 3)
	for ci := 0; ci < nc; ci++ {
		cp := ClientPlan{Addr: clientAddr(ci), Mode: g.R.Pick([]string{"pipeline", "closed"}), CloseAfterSent: -1, CloseAfterReplies: -1, StartStep: g.R.Intn(10)}
		n := g.R.Range(1, 6)
		for ri := 0; ri < n; ri++ {
			cp.Reqs = append(cp.Reqs, g.bigSplit(Tok(ci, ri), maxKeys))
		}
		p.Clients = append(p.Clients, cp)
	}
	if p.Variant == "fdreuse" {
		// a client that sends only the first part of a multi-key request (at least the command and one key) and goes away; the
		// clients with the real workload arrive afterwards and get its descriptor number
		gone := ClientPlan{Addr: clientAddr(len(p.Clients)), Mode: "pipeline", CloseAfterReplies: -1, CloseRst: g.R.Pct(50), StartStep: 0}
		rq := g.bigSplit(Tok(len(p.Clients), 0), 12)
		rq.Class = "abandoned"
		gone.Reqs = []ReqPlan{rq}
		gone.CloseAfterSent = g.R.Range(len(rq.Raw)/2, len(rq.Raw)-2)
		gone.Chunks = []int{gone.CloseAfterSent}
		p.Clients = append(p.Clients, gone)
		for ci := 0; ci < len(p.Clients)-1; ci++ {
			p.Clients[ci].StartAfterClient = len(p.Clients)
			p.Clients[ci].StartStep = 0
		}
		return
	}
	if p.Variant != "huge" && g.R.Pct(20) {
		// a small request size limit: the multi-key requests above it are rejected as a whole (nothing of them may reach a
		// backend, neither at once nor glued to a later request that reuses the pooled request object)
		p.Proxy.MsgMax = []int{300, 1000, 4000}[g.R.Intn(3)]
		for ci := range p.Clients {
			for ri := range p.Clients[ci].Reqs {
				if rq := &p.Clients[ci].Reqs[ri]; len(rq.Raw) > p.Proxy.MsgMax {
					rq.Class, rq.Expect = "reject", []byte(RReqTooLarge)
				}
			}
		}
	}
}

func checkC06(d *Driver, res *Result) {
	multi := 0
	rejected := 0
	for _, c := range d.Clients {
		for i := range c.Plan.Reqs {
			rq := &c.Plan.Reqs[i]
			if rq.Class != "reject" {
				continue
			}
			rejected++
			if recs := d.recsFor(rq.Tok); len(recs) > 0 {
				d.violate("C06", "rejected-request-forwarded", map[string]string{"cmd": rq.Cmd}, "client %d request %d (%s, %d bytes, limit %d) was rejected as too large, yet %s received %q carrying its keys",
					c.Idx, i, rq.Cmd, len(rq.Raw), d.P.Proxy.MsgMax, recs[0].Node, clip(recs[0].Raw, 100))
				return
			}
		}
	}
	d.Counters["c06_rejected_oversized"] = rejected
	for _, c := range d.Clients {
		for i := range c.Plan.Reqs {
			rq := &c.Plan.Reqs[i]
			if rq.Class != "split" {
				continue
			}
			recs := d.recsFor(rq.Tok)
			bySlot := map[int][]*CmdRec{}
			for _, r := range recs {
				if r.Name != rq.Cmd {
					d.violate("C06", "fragment-kind", map[string]string{"cmd": rq.Cmd}, "client %d request %d (%s): fragment at %s is %q", c.Idx, i, rq.Cmd, r.Node, clip(r.Raw, 80))
					return
				}
				if err := StrictCommand(r.Raw); err != nil {
					d.violate("C06", "fragment-malformed", map[string]string{"cmd": rq.Cmd, "how": "encoding"}, "client %d request %d: fragment at %s is not a well-formed RESP command (%v): %q", c.Idx, i, r.Node, err, clip(r.Raw[max(0, len(r.Raw)-60):], 60))
					return
				}
				ks := keysOf(r.Name, r.Args)
				if rq.Cmd == "mset" && len(r.Args)%2 != 1 {
					d.violate("C06", "fragment-malformed", map[string]string{"cmd": rq.Cmd}, "mset fragment with odd argument count: %q", clip(r.Raw, 80))
					return
				}
				s := RefSlot(ks[0])
				for _, k := range ks {
					if RefSlot(k) != s {
						d.violate("C06", "fragment-mixed-slots", map[string]string{"cmd": rq.Cmd}, "client %d request %d: fragment %q mixes slots", c.Idx, i, clip(r.Raw, 120))
						return
					}
				}
				bySlot[s] = append(bySlot[s], r)
			}
			// expected per-slot subsequences
			want := map[int][]string{}
			order := []int{}
			for j, k := range rq.Keys {
				s := RefSlot([]byte(k))
				if _, ok := want[s]; !ok {
					order = append(order, s)
				}
				want[s] = append(want[s], k)
				if rq.Vals != nil {
					want[s] = append(want[s], rq.Vals[j])
				}
			}
			if len(order) > 1 {
				multi++
			}
			for _, s := range order {
				fr := bySlot[s]
				if len(fr) != 1 {
					d.violate("C06", "fragment-count", map[string]string{"cmd": rq.Cmd, "got": fmt.Sprint(min(len(fr), 2))},
						"client %d request %d (%s, %d keys, %d slots): slot %d received %d fragments, want exactly 1", c.Idx, i, rq.Cmd, len(rq.Keys), len(order), s, len(fr))
					return
				}
				var got []string
				for _, a := range fr[0].Args[1:] {
					got = append(got, string(a))
				}
				if strings.Join(got, "\x01") != strings.Join(want[s], "\x01") {
					d.violate("C06", "fragment-content", map[string]string{"cmd": rq.Cmd},
						"client %d request %d (%s): slot %d fragment carries %q, want %q", c.Idx, i, rq.Cmd, s, clip([]byte(strings.Join(got, " ")), 200), clip([]byte(strings.Join(want[s], " ")), 200))
					return
				}
			}
			for s := range bySlot {
				if _, ok := want[s]; !ok {
					d.violate("C06", "fragment-extra", map[string]string{"cmd": rq.Cmd}, "client %d request %d: unexpected fragment for slot %d", c.Idx, i, s)
					return
				}
			}
		}
	}
	d.NoBackendProtoErrors("C06")
	d.Counters["c06_multislot_requests"] = multi
	res.Nontrivial = multi > 0
	res.Sample = fmt.Sprintf("%d clients, %d split requests (%d spanning several slots), %d backend commands", len(d.Clients), totalReqs(d), multi, len(d.C.Log))
}

func genC07(g *Gen) {
	genC06(g)
	p := g.Plan
	// pre-populate about half of the keys so that present/absent values mix
	for _, c := range p.Clients {
		for _, rq := range c.Reqs {
			for _, k := range rq.Keys {
				if g.R.Pct(50) {
					v := g.R.Pick([]string{"", "x\r\ny", "$5\r\nhello", "*2", fmt.Sprintf("pre-%s", k), strings.Repeat("z", g.R.Range(1, 300))})
					if g.R.Pct(3) {
						v = strings.Repeat("Q", 65536)
					}
					p.Prepop = append(p.Prepop, [2]string{k, v})
				}
			}
		}
	}
	p.Sched.WRelease = 2 // hold replies back longer so that arrival orders vary
	p.Sched.ChunkPct = 50
	if p.Variant == "reuse" {
		// a client that walks away right after sending (its requests are in flight, their objects get recycled), followed by the
		// clients with the split requests: the merges must not pick up anything of the departed client's late replies
		gone := ClientPlan{Addr: clientAddr(len(p.Clients)), Mode: "pipeline", CloseAfterReplies: 0, CloseRst: g.R.Pct(50), StartStep: 0}
		for ri, n := 0, g.R.Range(1, 6); ri < n; ri++ {
			tok := Tok(len(p.Clients), ri)
			if g.R.Pct(40) {
				gone.Reqs = append(gone.Reqs, g.randomSplit(tok, 4, 0))
			} else {
				gone.Reqs = append(gone.Reqs, g.randomSingle(tok, -1))
			}
		}
		total := 0
		for _, r := range gone.Reqs {
			total += len(r.Raw)
		}
		gone.CloseAfterSent = total
		p.Clients = append(p.Clients, gone)
		for ci := 0; ci < len(p.Clients)-1; ci++ {
			p.Clients[ci].StartAfterClient = len(p.Clients)
			p.Clients[ci].StartStep = 0
		}
	}
}

func checkC07(d *Driver, res *Result) {
	d.StdReplyCheck("C07", Relax{})
	// non-trivial: some request's fragments were answered in an order different from request (first-key) order
	ooo := 0
	for _, c := range d.Clients {
		for i := range c.Plan.Reqs {
			rq := &c.Plan.Reqs[i]
			recs := d.recsFor(rq.Tok)
			if len(recs) < 2 {
				continue
			}
			firstIdx := func(r *CmdRec) int {
				for j, k := range rq.Keys {
					if len(r.Args) > 1 && k == string(r.Args[1]) {
						return j
					}
				}
				return 0
			}
			rs := append([]*CmdRec(nil), recs...)
			sort.Slice(rs, func(a, b int) bool { return rs[a].RelSeq < rs[b].RelSeq })
			for j := 1; j < len(rs); j++ {
				if firstIdx(rs[j]) < firstIdx(rs[j-1]) {
					ooo++
					break
				}
			}
		}
	}
	d.Counters["c07_out_of_order_arrivals"] = ooo
	res.Nontrivial = ooo > 0
	res.Sample = fmt.Sprintf("%d clients, %d split requests, %d with fragment replies arriving out of request order, %d prepopulated keys", len(d.Clients), totalReqs(d), ooo, len(d.P.Prepop))
}

// ---- C08: framing independent of segmentation ----

func init() {
	register(&Profile{Name: "C08", Prop: "C08", Gen: genC08, Check: checkC08})
}

func genC08(g *Gen) {
	p := g.Plan
	pipeSeed, cutPos, cut2 := uint64(0), -1, -1
	if strings.HasPrefix(p.Variant, "cut:") {
		// cut:<pipeline>:<pos>[:<pos2>] : fixed pipeline (derived from <pipeline>, not from the seed), one or two cuts
		var a, b, c int
		n, _ := fmt.Sscanf(p.Variant, "cut:%d:%d:%d", &a, &b, &c)
		pipeSeed, cutPos = uint64(a)+1, b
		if n == 3 {
			cut2 = c
		}
		g.R = NewRng(pipeSeed).Derive("c08pipe")
	}
	p.Topos = []Topology{g.StdTopology(3, 0, false)}
	p.Proxy.DisableSlave = true
	p.Proxy.BufCap = []int{16, 64, 257, 4096, 65536}[g.R.Intn(5)]
	g.cleanKernel()
	if cutPos < 0 {
		p.Kernel.ShortReadPct = g.R.Range(0, 50)
	}
	p.Sched.ChunkPct = 70
	cp := ClientPlan{Addr: clientAddr(0), Mode: "pipeline", CloseAfterSent: -1, CloseAfterReplies: -1}
	n := g.R.Range(1, 40)
	if cutPos >= 0 {
		n = g.R.Range(2, 6)
	}
	if p.Variant == "deep" {
		// hundreds of small requests in very few segments: far more requests in flight from one client than any internal
		// per-connection limit, with the rest of the pipeline already buffered
		n = g.R.Range(130, 420)
		p.Proxy.BufCap = 65536
		p.Sched.MaxSteps = 20000
	}
	cmds := LoadDocCommands().SingleKeyCmds()
	for ri := 0; ri < n; ri++ {
		tok := Tok(0, ri)
		switch {
		case g.R.Pct(20):
			cp.Reqs = append(cp.Reqs, g.randomLocal(tok, ""))
		case g.R.Pct(25):
			cp.Reqs = append(cp.Reqs, g.bigSplit(tok, 5))
		case g.R.Pct(3) && cutPos < 0 && p.Variant != "deep":
			cp.Reqs = append(cp.Reqs, g.Single(tok, "set", Key(tok, 0, -1, ""), strings.Repeat("L", g.R.Range(131072, 200000))))
		default:
			cp.Reqs = append(cp.Reqs, g.fullSingle(tok, g.R.Pick(cmds), -1, "", 300))
		}
	}
	total := 0
	for _, r := range cp.Reqs {
		total += len(r.Raw)
	}
	switch {
	case p.Variant == "deep":
		switch g.R.Intn(3) {
		case 0:
			cp.Chunks = []int{total} // everything in one segment
		case 1:
			a := g.R.Range(1, total-1)
			cp.Chunks = []int{a, total - a}
		default:
			a := g.R.Range(1, total-2)
			b := g.R.Range(1, total-a-1)
			cp.Chunks = []int{a, b, total - a - b}
		}
	case p.Variant == "aligned":
		// cuts related to the request boundaries and to each other: on a boundary, a few fixed distances before/after one, and
		// at (start of a request + length of an earlier request). Equal leftover lengths, reads that end exactly on a boundary and
		// leftovers as long as an earlier request are far more frequent than under uniformly random cuts; every chunk is a
		// read of its own.
		p.Proxy.BufCap = []int{257, 4096, 65536, 65536}[g.R.Intn(4)]
		p.Kernel.ShortReadPct = 0
		g.alignedChunks(&cp)
	case cutPos >= 0:
		a := cutPos % (total - 1)
		cp.Chunks = []int{a + 1}
		if cut2 >= 0 {
			b := 1 + cut2%64
			cp.Chunks = append(cp.Chunks, b)
		}
		cp.Chunks = append(cp.Chunks, total)
	case g.R.Pct(25):
		for i := 0; i < total && i < 3000; i++ {
			cp.Chunks = append(cp.Chunks, 1)
		}
	case g.R.Pct(40):
		left := total
		for left > 0 {
			k := g.R.Range(1, min(left, []int{3, 17, 80, 5000}[g.R.Intn(4)]))
			cp.Chunks = append(cp.Chunks, k)
			left -= k
		}
	}
	p.Clients = append(p.Clients, cp)
	p.Sched.MaxSteps = 12000
}


// alignedChunks cuts the client's stream at points related to the request boundaries and to each other (see the C08
// "aligned" variant) and makes every chunk a read of its own.
func (g *Gen) alignedChunks(cpp *ClientPlan) {
	cp := *cpp
	total := 0
	for _, r := range cp.Reqs {
		total += len(r.Raw)
	}
	cp.PollAfterSend = true
	var bounds []int
	off := 0
	for _, r := range cp.Reqs {
		off += len(r.Raw)
		bounds = append(bounds, off)
	}
	var S []int
	for i := g.R.Range(1, 3); i > 0; i-- {
		S = append(S, g.R.Range(1, 24))
	}
	cuts := map[int]bool{}
	for j, b := range bounds {
		start := 0
		if j > 0 {
			start = bounds[j-1]
		}
		if g.R.Pct(50) {
			cuts[b] = true
		}
		for _, sd := range S {
			if g.R.Pct(30) {
				cuts[b-sd] = true
			}
			if g.R.Pct(30) {
				cuts[b+sd] = true
			}
		}
		if j > 0 && g.R.Pct(40) {
			i := g.R.Intn(j)
			li := len(cp.Reqs[i].Raw)
			if g.R.Pct(30) && i > 0 {
				li += len(cp.Reqs[i-1].Raw) // two earlier requests joined
			}
			if start+li < b {
				cuts[start+li] = true
			}
		}
	}
	var cs []int
	for c := range cuts {
		if c > 0 && c < total {
			cs = append(cs, c)
		}
	}
	sort.Ints(cs)
	prev := 0
	for _, c := range cs {
		cp.Chunks = append(cp.Chunks, c-prev)
		prev = c
	}
	cp.Chunks = append(cp.Chunks, total-prev)
	*cpp = cp
}

func checkC08(d *Driver, res *Result) {
	d.StdReplyCheck("C08", Relax{})
	d.checkRawPassThrough("C08")
	c := d.Clients[0]
	if c.Sock != nil && c.Sock.Closed() {
		quit := false
		for _, r := range c.Plan.Reqs {
			quit = quit || r.Quit
		}
		if !quit {
			d.violate("C08", "closed-on-wellformed-stream", map[string]string{}, "the proxy closed a connection that only carried well-formed requests (%d/%d bytes sent)", c.sent, len(c.stream))
		}
	}
	// every forwarded request must have been seen by the backends exactly once per fragment (none lost / duplicated)
	for i := range c.Plan.Reqs {
		rq := &c.Plan.Reqs[i]
		if rq.Class == "single" {
			n := 0
			for _, r := range d.recsFor(rq.Tok) {
				if r.Name == rq.Cmd {
					n++
				}
			}
			if n != 1 {
				d.violate("C08", "request-count", map[string]string{"got": fmt.Sprint(min(n, 2))}, "request %d (%s) was seen %d times at the backends", i, rq.Cmd, n)
				break
			}
		}
	}
	res.Nontrivial = d.K.Stats.Reads > 3
	d.Counters["c08_chunks"] = len(c.Plan.Chunks)
	res.Sample = fmt.Sprintf("pipeline of %d requests (%d bytes) in %d planned chunks, bufcap %d, %d proxy reads, %d short reads", len(c.Plan.Reqs), len(c.stream), len(c.Plan.Chunks), d.P.Proxy.BufCap, d.K.Stats.Reads, d.K.Stats.ShortReads)
}

// ---- C10: per-client order at each node ----

func init() {
	register(&Profile{Name: "C10", Prop: "C10", Gen: genC10, Check: checkC10})
}

func genC10(g *Gen) {
	p := g.Plan
	p.Topos = []Topology{g.StdTopology(g.R.Range(3, 4), g.R.Range(0, 1), false)}
	g.swarmProxy()
	p.Proxy.ServerConns = 1
	p.Proxy.Preconnect = g.R.Pct(50)
	g.swarmKernel(false)
	nc := g.R.Range(1, 5)
	if p.Variant == "tasks" {
		nc = 3
	}
	for ci := 0; ci < nc; ci++ {
		cp := ClientPlan{Addr: clientAddr(ci), Mode: "pipeline", CloseAfterSent: -1, CloseAfterReplies: -1, StartStep: g.R.Intn(15)}
		n := g.R.Range(5, 60)
		if p.Variant == "tasks" {
			n = g.R.Range(300, 420) // > MaxAsyncTasksAtOneTime write signals in one poll
		}
		for ri := 0; ri < n; ri++ {
			tok := Tok(ci, ri)
			switch {
			case g.R.Pct(20) && ri+1 < n:
				// SET k v ; GET k  pipelined on a private key (the key carries both tokens)
				key := Key(tok, 0, -1, "") + "_" + Tok(ci, ri+1) + "k0"
				val := "val-" + tok
				cp.Reqs = append(cp.Reqs, g.Single(tok, "set", key, val))
				ri++
				rq := g.Single(Tok(ci, ri), "get", key)
				rq.Expect = Bulk([]byte(val)) // consequence: the read observes the write
				cp.Reqs = append(cp.Reqs, rq)
			case g.R.Pct(20):
				cp.Reqs = append(cp.Reqs, g.randomSplit(tok, 5, 0))
			default:
				cp.Reqs = append(cp.Reqs, g.randomSingle(tok, -1))
			}
		}
		p.Clients = append(p.Clients, cp)
	}
	p.Sched.MaxSteps = 8000
	if p.Variant == "connloss" {
		// the connection to a node is lost right when the client has handed over a request for it - before the proxy's deferred
		// write ran - and the client's next request comes in a read of its own: whatever the proxy does with the unwritten
		// fragment, the node must never see that client's requests out of order
		p.Faulty = true
		p.Proxy.DisableSlave = true
		g.cleanKernel()
		p.Sched.ChunkPct = 0
		for ci := range p.Clients {
			c := &p.Clients[ci]
			c.Chunks = nil
			for _, r := range c.Reqs {
				c.Chunks = append(c.Chunks, len(r.Raw)) // one request per segment
			}
		}
		for k := g.R.Range(1, 3); k > 0; k-- {
			ci := g.R.Intn(len(p.Clients))
			var cand []int
			for ri, r := range p.Clients[ci].Reqs {
				if r.Class == "single" && ri+1 < len(p.Clients[ci].Reqs) {
					cand = append(cand, ri)
				}
			}
			if len(cand) == 0 {
				continue
			}
			p.Events = append(p.Events, Event{Kind: "kill-conn", When: When{Token: Tok(ci, cand[g.R.Intn(len(cand))]), Phase: "sent"}, Rst: g.R.Pct(50)})
		}
	}
}

func reqIndexOfToken(t string) (ci, ri int) {
	fmt.Sscanf(t, "c%dr%d", &ci, &ri)
	return
}

func checkC10(d *Driver, res *Result) {
	type key struct {
		ci   int
		node string
	}
	last := map[key]int{}
	pairs, crossings := 0, 0
	for _, r := range d.C.Log {
		if r.Kind != "data" || len(r.Tokens) == 0 {
			continue
		}
		// the request this command belongs to = smallest request index among its tokens with the same command name
		ci, ri := reqIndexOfToken(r.Tokens[0])
		if r.Name == "get" && len(r.Tokens) > 1 {
			ci, ri = reqIndexOfToken(r.Tokens[1])
		}
		k := key{ci, r.Node}
		if prev, ok := last[k]; ok && ri < prev {
			d.violate("C10", "order-at-node", map[string]string{}, "node %s received request %d of client %d after request %d of the same client", r.Node, ri, ci, prev)
			break
		}
		last[k] = ri
		crossings++
	}
	if d.P.Faulty {
		d.StdReplyCheck("C10", Relax{AllowProxyError: true, AllowMissingClosed: true})
	} else {
		d.StdReplyCheck("C10", Relax{})
	}
	for _, c := range d.Clients {
		for i := range c.Plan.Reqs {
			rq := &c.Plan.Reqs[i]
			if rq.Class == "single" && rq.Expect != nil && i > 0 && c.Plan.Reqs[i-1].Cmd == "set" && c.Plan.Reqs[i-1].Keys[0] == rq.Keys[0] {
				if d.P.Faulty && (i-1 >= len(c.Replies) || string(c.Replies[i-1]) != ROK || i >= len(c.Replies) || (len(c.Replies[i]) > 0 && c.Replies[i][0] == '-')) {
					continue // the write (or the read) failed with the lost connection: nothing to observe
				}
				// the statement is about a write and a read that are both served by the master
				atMaster := false
				for _, r := range d.recsFor(rq.Tok) {
					if r.Name == "get" && r.Kind == "data" && !r.AsReplica {
						atMaster = true
					}
				}
				if !atMaster {
					continue
				}
				pairs++
				if i < len(c.Replies) && !bytes.Equal(c.Replies[i], rq.Expect) {
					d.violate("C10", "read-after-write", map[string]string{}, "client %d: pipelined SET then GET of %q returned %q, want %q", c.Idx, clip([]byte(rq.Keys[0]), 40), clip(c.Replies[i], 60), clip(rq.Expect, 60))
					return
				}
			}
		}
	}
	d.Counters["c10_set_get_pairs"] = pairs
	res.Nontrivial = d.K.Stats.EAGAINWrite+d.K.Stats.ShortWrites > 0 || len(d.Clients) > 1
	res.Sample = fmt.Sprintf("%d clients, %d requests, %d SET;GET pairs, %d commands at backends, %d short/blocked writes", len(d.Clients), totalReqs(d), pairs, crossings, d.K.Stats.EAGAINWrite+d.K.Stats.ShortWrites)
}

// ---- C19 (system level): replies of any size reach slow readers complete and uncorrupted ----

func init() {
	register(&Profile{Name: "C19", Prop: "C19", Gen: func(g *Gen) {
		if g.Plan.Variant == "aligned" {
			genC02(g) // leftovers of equal lengths on one connection and across a recycled descriptor (see genC02 "aligned")
			return
		}
		c02SizeCap = 6000
		genC02(g)
		c02SizeCap = 0
		p := g.Plan
		p.Proxy.BufCap = []int{16, 64, 257}[g.R.Intn(3)]
		p.Kernel.ClientSndCap = []int{8, 64, 64, 512}[g.R.Intn(4)]
		p.Kernel.BackendSndCap = []int{8, 64, 512, 1 << 20}[g.R.Intn(4)]
		p.Sched.SettleS = 12
		p.Kernel.ShortWritePct = g.R.Range(10, 50)
		p.Kernel.ShortReadPct = g.R.Range(0, 50)
		for i := range p.Clients {
			p.Clients[i].Slow = g.R.Pct(60)
		}
		p.Sched.MaxSteps = 20000
	}, Check: func(d *Driver, res *Result) {
		d.StdReplyCheck("C19", Relax{})
		d.checkRawPassThrough("C19")
		res.Nontrivial = (d.K.Stats.EAGAINWrite > 0 && d.K.Stats.ShortWrites > 0) || d.P.Variant == "aligned"
		res.Sample = fmt.Sprintf("%d clients (slow readers), %d requests, read buffer %d B, client send buffer %d B, backend send buffer %d B: %d blocked and %d short writes, %d short reads",
			len(d.Clients), totalReqs(d), d.P.Proxy.BufCap, d.P.Kernel.ClientSndCap, d.P.Kernel.BackendSndCap, d.K.Stats.EAGAINWrite, d.K.Stats.ShortWrites, d.K.Stats.ShortReads)
	}})
}

// ---- C07 (thorough): every arrival order of the fragment replies of fixed request shapes ----
//
// variant "perm:<shape>:<perm>:<cut>": the request is derived from <shape> alone (k fragments on k different masters),
// all k replies are held until every fragment was consumed, then released in the <perm>-th permutation (of the
// connections ordered by node address); cut >= 0 additionally splits the first released reply after <cut> bytes with a
// poll in between.

func init() {
	register(&Profile{Name: "C07perm", Prop: "C07", Gen: genC07perm, Run: runC07perm})
}

func genC07perm(g *Gen) {
	p := g.Plan
	var shape, perm, cut int
	cut = -1
	fmt.Sscanf(p.Variant, "perm:%d:%d:%d", &shape, &perm, &cut)
	r := NewRng(uint64(shape) + 77).Derive("c07shape")
	g.R = r
	p.Topos = []Topology{g.StdTopology(5, 0, false)}
	p.Proxy.DisableSlave = true
	p.Proxy.ServerConns = 1
	p.Proxy.BufCap = []int{64, 65536}[r.Intn(2)]
	g.cleanKernel()
	k := 2 + shape%4 // 2..5 fragments
	cmd := []string{"mget", "del", "mset"}[(shape/4)%3]
	tok := Tok(0, 0)
	var keys, vals []string
	mastersUsed := r.Intn(5)
	for i := 0; i < k; i++ {
		rg := p.Topos[0].Nodes[(mastersUsed+i)%5].Slots[0]
		slot := r.Range(rg[0], rg[1])
		n := 1 + r.Intn(3)
		for j := 0; j < n; j++ {
			key := Key(tok, i*10+j, slot, "")
			if j > 0 && r.Pct(30) && cmd != "mset" {
				key = keys[len(keys)-1] // duplicate
			}
			keys = append(keys, key)
			if r.Pct(60) {
				p.Prepop = append(p.Prepop, [2]string{key, []string{"", "v\r\n", "$3\r\nabc", fmt.Sprintf("val%d", i)}[r.Intn(4)]})
			}
		}
	}
	// interleave the keys of different slots
	for i := len(keys) - 1; i > 0; i-- {
		j := r.Intn(i + 1)
		keys[i], keys[j] = keys[j], keys[i]
	}
	if cmd == "mset" {
		for i := range keys {
			vals = append(vals, fmt.Sprintf("v%d", i))
		}
	}
	cp := ClientPlan{Addr: clientAddr(0), Mode: "pipeline", CloseAfterSent: -1, CloseAfterReplies: -1}
	cp.Reqs = append(cp.Reqs, g.Split(tok, cmd, keys, vals))
	cp.Reqs = append(cp.Reqs, g.Single(Tok(0, 1), "get", Key(Tok(0, 1), 0, -1, "")))
	p.Clients = append(p.Clients, cp)
	p.Notes = []string{fmt.Sprintf("k=%d perm=%d cut=%d", k, perm, cut)}
}

func nthPerm(n, idx int) []int {
	items := make([]int, n)
	for i := range items {
		items[i] = i
	}
	var out []int
	f := 1
	for i := 2; i <= n; i++ {
		f *= i
	}
	idx %= f
	for i := n; i >= 1; i-- {
		f /= i
		j := idx / f
		idx %= f
		out = append(out, items[j])
		items = append(items[:j], items[j+1:]...)
	}
	return out
}

func runC07perm(d *Driver, res *Result) {
	var shape, perm, cut int
	cut = -1
	fmt.Sscanf(d.P.Variant, "perm:%d:%d:%d", &shape, &perm, &cut)
	k := 2 + shape%4
	d.boot()
	res.Converged = d.converge(15 * time.Second)
	if !res.Converged {
		res.Error = "proxy did not adopt the initial topology"
		return
	}
	d.HoldData = true
	c := d.Clients[0]
	d.connect(c)
	d.send(c, d.sendable(c))
	holding := func() []*BConn {
		var hs []*BConn
		for _, bc := range d.C.Conns() {
			for _, r := range bc.Pending {
				if r.Kind == "data" && len(r.Tokens) > 0 && strings.HasPrefix(r.Tokens[0], Tok(0, 0)+"k") {
					hs = append(hs, bc)
					break
				}
			}
		}
		sort.Slice(hs, func(a, b int) bool { return hs[a].Node.Addr < hs[b].Node.Addr })
		return hs
	}
	for i := 0; i < 60 && len(holding()) < k; i++ {
		d.Poll()
		d.pumpBackends()
	}
	hs := holding()
	if len(hs) != k {
		res.Error = fmt.Sprintf("expected %d fragments held at distinct backends, got %d", k, len(hs))
		return
	}
	order := nthPerm(k, perm)
	for n, idx := range order {
		bc := hs[idx]
		// release exactly the held data reply of this connection (handshake/probe replies flow freely)
		rec := bc.Pending[0]
		total := len(rec.Reply) - bc.relOff
		if n == 0 && cut >= 0 && cut < total {
			d.HoldData = false
			d.release(bc, cut%total+0)
			d.HoldData = true
			d.Poll()
			total = len(rec.Reply) - bc.relOff
		}
		d.HoldData = false
		d.release(bc, total)
		d.HoldData = true
		d.trace("released fragment reply %d of %d from %s", n+1, k, bc.Node.Addr)
		d.Poll()
		d.Poll()
	}
	d.HoldData = false
	d.settle()
	d.StdReplyCheck("C07", Relax{})
	res.Nontrivial = true
	d.Counters["c07_enumerated_orders"] = 1
	res.Sample = fmt.Sprintf("shape %d (%s, %d fragments), arrival order %v, first reply cut at %d", shape, c.Plan.Reqs[0].Cmd, k, order, cut)
}

// checkHandshakes: on every backend connection AUTH is the first command iff a password is configured, and on a connection to
// a replica (per topology t) READONLY has been sent before the first forwarded client command. A connection opened while
// the node's role was not known yet (seed servers) and used for topology probes only is not a replica connection in that sense.
func (d *Driver) checkHandshakes(prop string, t *Topology) {
	for _, bc := range d.C.Conns() {
		node := t.ByAddr(bc.Node.Addr)
		if node == nil || len(bc.Cmds) == 0 {
			continue
		}
		if d.P.Proxy.Password != "" {
			c0 := bc.Cmds[0]
			if c0.Name != "auth" || len(c0.Args) != 2 || string(c0.Args[1]) != d.P.Proxy.Password {
				d.violate(prop, "handshake", map[string]string{"missing": "auth"}, "connection #%d to %s: first command is %q, want AUTH with the configured password", bc.ID, bc.Node.Addr, clip(c0.Raw, 60))
				return
			}
		}
		readonly := false
		for i, r := range bc.Cmds {
			switch {
			case r.Name == "auth" && (i > 0 || d.P.Proxy.Password == ""):
				d.violate(prop, "handshake", map[string]string{"extra": "auth"}, "connection #%d to %s: unexpected AUTH as command %d", bc.ID, bc.Node.Addr, i)
				return
			case r.Name == "readonly":
				if node.Master {
					d.violate(prop, "handshake", map[string]string{"extra": "readonly"}, "connection #%d to master %s: unexpected READONLY", bc.ID, bc.Node.Addr)
					return
				}
				readonly = true
			case r.Kind == "data" || r.Kind == "redirect":
				if !node.Master && !readonly {
					d.violate(prop, "handshake", map[string]string{"missing": "readonly"}, "connection #%d to replica %s: %s arrived before any READONLY", bc.ID, bc.Node.Addr, r.Name)
					return
				}
			}
		}
	}
}
