//go:build !verifbatch

package simrun

// batchSupported is false when the overlay-added reset function did not compile against the tree under test (for instance
// after a refactoring of rcproxy's globals): every run then gets a process of its own, as designed originally.
const batchSupported = false

func resetProxyGlobals() {}
