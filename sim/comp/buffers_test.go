// Package comp: in-process seeded state-machine simulation of rcproxy's buffer packages against a plain []byte
// queue (property C19). pgregory.net/rapid is the choice source (one seed = one repeatable run), the shrinker and
// the replay mechanism (.fail files).  Streams handed to ReadFrom/WriteTo are simulated too: short reads, (0,nil)
// reads, data together with EOF, errors after k bytes; writers that accept fewer bytes and fail.
//
// Oracle: for the operations the property names (write, vectored write, read, peek, discard, growth, reset) the
// model is exact: returned and peeked bytes and every length accessor equal the model's after every operation.
// For ReadFrom/WriteTo with an injected stream fault the comparison is relaxed narrowly: un-acknowledged bytes may
// be lost, but what remains must still be the model's bytes in order (a suffix after WriteTo, model+prefix after
// ReadFrom) - never wrong data; the model is then re-synchronised from the buffer.
package comp

import (
	"bytes"
	"encoding/json"
	"errors"
	"fmt"
	"io"
	"os"
	"sync"
	"testing"

	"pgregory.net/rapid"

	"rcproxy/core/pkg/buffer/elastic"
	"rcproxy/core/pkg/buffer/linkedlist"
	"rcproxy/core/pkg/buffer/ring"
)

// ---- reach statistics (written to $COMP_STATS at exit) ----

// streams: also drive ReadFrom/WriteTo with simulated faulty readers/writers. Off in the registered check: the property
// names writes, vectored writes, reads, peeks, discards, growth and resets; ReadFrom/WriteTo are gnet API remnants that
// rcproxy never calls, so their behaviour is explored only on request (COMP_STREAMS=1) and not held against C19.
var streams = os.Getenv("COMP_STREAMS") == "1"

var (
	statMu sync.Mutex
	stats  = map[string]int{}
	seqs   = map[string]bool{}
)

func hit(k string) {
	statMu.Lock()
	stats[k]++
	statMu.Unlock()
}

func TestMain(m *testing.M) {
	rc := m.Run()
	if p := os.Getenv("COMP_STATS"); p != "" {
		statMu.Lock()
		stats["distinct_nontrivial_sequences"] = len(seqs)
		b, _ := json.Marshal(stats)
		statMu.Unlock()
		_ = os.WriteFile(p, b, 0o644)
	}
	os.Exit(rc)
}

// ---- generators ----

var counter byte

func genBytes(t *rapid.T, label string, around int) []byte {
	// sizes concentrate on 0, 1 and the neighbourhood of the interesting threshold
	var n int
	switch rapid.IntRange(0, 5).Draw(t, label+"-kind") {
	case 0:
		n = 0
	case 1:
		n = 1
	case 2:
		n = rapid.IntRange(2, 40).Draw(t, label+"-small")
	case 3:
		n = around + rapid.IntRange(-3, 3).Draw(t, label+"-edge")
	case 4:
		n = rapid.IntRange(0, 3*around+8).Draw(t, label+"-any")
	default:
		n = rapid.IntRange(0, 600).Draw(t, label+"-mid")
	}
	if n < 0 {
		n = 0
	}
	b := make([]byte, n)
	for i := range b {
		counter++
		b[i] = counter // every byte differs from its neighbours: reordering, duplication and loss all show
	}
	return b
}

// faulty reader: hands out data in seeded chunks, may return (0,nil), data with EOF, or an error after k bytes
type simReader struct {
	data    []byte
	chunks  []int
	errAt   int  // <0: never; else fail once that many bytes were handed out
	eofData bool // deliver the last chunk together with io.EOF
	given   int
	zeroes  int
}

var errInjected = errors.New("injected stream error")

func (r *simReader) Read(p []byte) (int, error) {
	if r.errAt >= 0 && r.given >= r.errAt {
		return 0, errInjected
	}
	if r.given >= len(r.data) {
		return 0, io.EOF
	}
	if len(p) == 0 {
		return 0, nil
	}
	n := len(r.data) - r.given
	if len(r.chunks) > 0 {
		c := r.chunks[0]
		r.chunks = r.chunks[1:]
		if c == 0 && r.zeroes < 3 {
			r.zeroes++
			return 0, nil
		}
		if c > 0 && c < n {
			n = c
		}
	}
	if n > len(p) {
		n = len(p)
	}
	if r.errAt >= 0 && r.given+n > r.errAt {
		n = r.errAt - r.given
		copy(p, r.data[r.given:r.given+n])
		r.given += n
		return n, errInjected // data together with the error
	}
	copy(p, r.data[r.given:r.given+n])
	r.given += n
	if r.eofData && r.given == len(r.data) {
		return n, io.EOF
	}
	return n, nil
}

// faulty writer: accepts up to budget bytes, then fails (a short count always comes with an error, as io.Writer demands)
type simWriter struct {
	got    []byte
	budget int // <0: unlimited
}

func (w *simWriter) Write(p []byte) (int, error) {
	if w.budget < 0 {
		w.got = append(w.got, p...)
		return len(p), nil
	}
	n := len(p)
	if n > w.budget {
		n = w.budget
	}
	w.got = append(w.got, p[:n]...)
	w.budget -= n
	if n < len(p) {
		return n, errInjected
	}
	return n, nil
}

func genReader(t *rapid.T, around int) *simReader {
	r := &simReader{data: genBytes(t, "rf-data", around), errAt: -1}
	r.chunks = rapid.SliceOfN(rapid.IntRange(0, 700), 0, 6).Draw(t, "rf-chunks")
	switch rapid.IntRange(0, 3).Draw(t, "rf-fault") {
	case 1:
		r.eofData = true
	case 2:
		if len(r.data) > 0 {
			r.errAt = rapid.IntRange(0, len(r.data)).Draw(t, "rf-errat")
		}
	}
	return r
}

func concat(bs ...[]byte) []byte {
	var o []byte
	for _, b := range bs {
		o = append(o, b...)
	}
	return o
}

func flat(bs [][]byte) []byte { return concat(bs...) }

// ---- ring.Buffer ----

func TestRing(t *testing.T) {
	rapid.Check(t, func(t *rapid.T) {
		size := rapid.SampledFrom([]int{0, 1, 2, 8, 64, 1024, 4096, 8192}).Draw(t, "size")
		rb := ring.New(size)
		var model []byte
		around := size
		if around == 0 {
			around = 1024
		}
		trace := ""
		nontrivial := false
		check := func(op string) {
			if rb.Buffered() != len(model) {
				t.Fatalf("%s: Buffered()=%d, model has %d bytes", op, rb.Buffered(), len(model))
			}
			if rb.IsEmpty() != (len(model) == 0) {
				t.Fatalf("%s: IsEmpty()=%v, model has %d bytes", op, rb.IsEmpty(), len(model))
			}
			if rb.Available() != rb.Cap()-len(model) {
				t.Fatalf("%s: Available()=%d Cap()=%d model=%d", op, rb.Available(), rb.Cap(), len(model))
			}
			if rb.IsFull() != (rb.Cap() > 0 && len(model) == rb.Cap()) && rb.Cap() > 0 {
				t.Fatalf("%s: IsFull()=%v Cap()=%d model=%d", op, rb.IsFull(), rb.Cap(), len(model))
			}
			h, tl := rb.Peek(-1)
			if !bytes.Equal(concat(h, tl), model) {
				t.Fatalf("%s: content %q, model %q", op, clipb(concat(h, tl)), clipb(model))
			}
			if got := rb.Bytes(); !bytes.Equal(got, model) {
				t.Fatalf("%s: Bytes() %q, model %q", op, clipb(got), clipb(model))
			}
			if tl != nil {
				hit("ring_wrapped")
				nontrivial = true
			}
		}
		t.Repeat(map[string]func(*rapid.T){
			"write": func(t *rapid.T) {
				p := genBytes(t, "w", around)
				before := rb.Cap()
				n, err := rb.Write(p)
				if n != len(p) || err != nil {
					t.Fatalf("Write(%d) = %d, %v", len(p), n, err)
				}
				model = append(model, p...)
				if rb.Cap() != before {
					hit("ring_grew")
					nontrivial = true
				}
				trace += fmt.Sprintf("w%d ", len(p))
				check("write")
			},
			"fill-exactly": func(t *rapid.T) {
				n := rb.Available()
				if n == 0 || n > 1<<16 {
					t.Skip()
				}
				p := make([]byte, n)
				for i := range p {
					counter++
					p[i] = counter
				}
				_, _ = rb.Write(p)
				model = append(model, p...)
				hit("ring_filled_exactly")
				trace += "fill "
				check("fill-exactly")
			},
			"write-string": func(t *rapid.T) {
				p := genBytes(t, "ws", 16)
				n, err := rb.WriteString(string(p))
				if n != len(p) || err != nil {
					t.Fatalf("WriteString(%d) = %d, %v", len(p), n, err)
				}
				model = append(model, p...)
				check("write-string")
			},
			"write-byte": func(t *rapid.T) {
				counter++
				if err := rb.WriteByte(counter); err != nil {
					t.Fatalf("WriteByte: %v", err)
				}
				model = append(model, counter)
				trace += "wb "
				check("write-byte")
			},
			"read": func(t *rapid.T) {
				p := make([]byte, len(genBytes(t, "r", around)))
				n, err := rb.Read(p)
				want := len(p)
				if want > len(model) {
					want = len(model)
				}
				if len(p) > 0 && len(model) == 0 {
					if err == nil {
						t.Fatalf("Read on empty buffer returned no error")
					}
				} else if n != want || err != nil {
					t.Fatalf("Read(%d) = %d, %v; model has %d", len(p), n, err, len(model))
				}
				if !bytes.Equal(p[:n], model[:n]) {
					t.Fatalf("Read returned %q, model %q", clipb(p[:n]), clipb(model[:n]))
				}
				model = model[n:]
				trace += fmt.Sprintf("r%d ", len(p))
				check("read")
			},
			"read-byte": func(t *rapid.T) {
				b, err := rb.ReadByte()
				if len(model) == 0 {
					if err == nil {
						t.Fatalf("ReadByte on empty buffer returned no error")
					}
					return
				}
				if err != nil || b != model[0] {
					t.Fatalf("ReadByte = %d, %v; model %d", b, err, model[0])
				}
				model = model[1:]
				check("read-byte")
			},
			"peek": func(t *rapid.T) {
				n := len(genBytes(t, "p", around))
				h, tl := rb.Peek(n)
				want := n
				if n <= 0 || n > len(model) {
					want = len(model)
				}
				if got := concat(h, tl); !bytes.Equal(got, model[:want]) {
					t.Fatalf("Peek(%d) = %q, model %q", n, clipb(got), clipb(model[:want]))
				}
			},
			"discard": func(t *rapid.T) {
				n := len(genBytes(t, "d", around))
				got, err := rb.Discard(n)
				want := n
				if want > len(model) {
					want = len(model)
				}
				if got != want || err != nil {
					t.Fatalf("Discard(%d) = %d, %v; model has %d", n, got, err, len(model))
				}
				model = model[want:]
				trace += fmt.Sprintf("d%d ", n)
				check("discard")
			},
			"reset": func(t *rapid.T) {
				rb.Reset()
				model = nil
				check("reset")
			},
			"read-from": func(t *rapid.T) {
				if !streams {
					t.Skip()
				}
				r := genReader(t, around)
				n, err := rb.ReadFrom(r)
				faulty := r.errAt >= 0 || r.eofData
				if !faulty {
					if err != nil || int(n) != len(r.data) {
						t.Fatalf("ReadFrom = %d, %v; reader had %d bytes", n, err, len(r.data))
					}
					model = append(model, r.data...)
					hit("ring_readfrom_clean")
				} else {
					model = resyncAppend(t, "ring.ReadFrom", model, r.data[:r.given], func() []byte { h, tl := rb.Peek(-1); return concat(h, tl) })
					hit("ring_readfrom_faulty")
				}
				trace += "rf "
				check("read-from")
			},
			"write-to": func(t *rapid.T) {
				if !streams {
					t.Skip()
				}
				w := &simWriter{budget: -1}
				if rapid.Bool().Draw(t, "wt-faulty") {
					w.budget = rapid.IntRange(0, len(model)+2).Draw(t, "wt-budget")
				}
				n, err := rb.WriteTo(w)
				if len(model) == 0 {
					return
				}
				if int(n) != len(w.got) {
					t.Fatalf("WriteTo returned %d, writer got %d bytes", n, len(w.got))
				}
				if !bytes.Equal(w.got, model[:len(w.got)]) {
					t.Fatalf("WriteTo wrote %q, model %q", clipb(w.got), clipb(model[:len(w.got)]))
				}
				if w.budget < 0 || len(w.got) == len(model) && err == nil {
					if len(w.got) != len(model) {
						t.Fatalf("WriteTo to an unlimited writer moved %d of %d bytes (err %v)", len(w.got), len(model), err)
					}
					model = nil
					hit("ring_writeto_clean")
				} else {
					model = resyncSuffix(t, "ring.WriteTo", model, len(w.got), func() []byte { h, tl := rb.Peek(-1); return concat(h, tl) })
					hit("ring_writeto_faulty")
				}
				trace += "wt "
				check("write-to")
			},
		})
		if nontrivial {
			statMu.Lock()
			seqs["ring:"+trace] = true
			statMu.Unlock()
		}
	})
}

// after a faulty ReadFrom: content must be model + some prefix of the bytes the reader handed out
func resyncAppend(t *rapid.T, what string, model, handed []byte, content func() []byte) []byte {
	got := content()
	if len(got) < len(model) || !bytes.Equal(got[:len(model)], model) {
		t.Fatalf("%s with a faulty reader damaged earlier content: %q, model %q", what, clipb(got), clipb(model))
	}
	extra := got[len(model):]
	if len(extra) > len(handed) || !bytes.Equal(extra, handed[:len(extra)]) {
		t.Fatalf("%s with a faulty reader stored %q, which is not a prefix of what the reader handed out %q", what, clipb(extra), clipb(handed))
	}
	return append([]byte(nil), got...)
}

// after a faulty WriteTo: what remains must be a suffix of the model that starts at or after the acknowledged count
func resyncSuffix(t *rapid.T, what string, model []byte, acked int, content func() []byte) []byte {
	got := content()
	if len(got) > len(model)-acked {
		t.Fatalf("%s: writer acknowledged %d of %d bytes but %d remain (duplicates)", what, acked, len(model), len(got))
	}
	if !bytes.Equal(got, model[len(model)-len(got):]) {
		t.Fatalf("%s with a failing writer left %q, not a suffix of the model %q", what, clipb(got), clipb(model))
	}
	return append([]byte(nil), got...)
}

func clipb(b []byte) []byte {
	if len(b) > 48 {
		return append(append([]byte(nil), b[:24]...), b[len(b)-24:]...)
	}
	return b
}

// ---- linkedlist.Buffer ----

func TestLinkedList(t *testing.T) {
	rapid.Check(t, func(t *rapid.T) {
		var llb linkedlist.Buffer
		var model []byte
		trace := ""
		nontrivial := false
		check := func(op string) {
			if llb.Buffered() != len(model) {
				t.Fatalf("%s: Buffered()=%d, model has %d bytes", op, llb.Buffered(), len(model))
			}
			if llb.IsEmpty() != (len(model) == 0) {
				t.Fatalf("%s: IsEmpty()=%v, model has %d", op, llb.IsEmpty(), len(model))
			}
			if got := flat(llb.Peek(-1)); !bytes.Equal(got, model) {
				t.Fatalf("%s: content %q, model %q", op, clipb(got), clipb(model))
			}
			if llb.Len() > 1 {
				nontrivial = true
			}
		}
		t.Repeat(map[string]func(*rapid.T){
			"push-back": func(t *rapid.T) {
				p := genBytes(t, "pb", 512)
				llb.PushBack(p)
				model = append(model, p...)
				trace += fmt.Sprintf("pb%d ", len(p))
				check("push-back")
			},
			"push-front": func(t *rapid.T) {
				p := genBytes(t, "pf", 512)
				llb.PushFront(p)
				model = append(append([]byte(nil), p...), model...)
				trace += fmt.Sprintf("pf%d ", len(p))
				check("push-front")
			},
			"read": func(t *rapid.T) {
				p := make([]byte, len(genBytes(t, "r", 512)))
				n, _ := llb.Read(p)
				want := len(p)
				if want > len(model) {
					want = len(model)
				}
				if n != want || !bytes.Equal(p[:n], model[:n]) {
					t.Fatalf("Read(%d) = %d %q; model %q", len(p), n, clipb(p[:n]), clipb(model[:want]))
				}
				model = model[n:]
				trace += fmt.Sprintf("r%d ", len(p))
				hit("list_partial_read")
				check("read")
			},
			"peek": func(t *rapid.T) {
				n := len(genBytes(t, "p", 512))
				got := flat(llb.Peek(n))
				min := n
				if n <= 0 || n > len(model) {
					min = len(model)
				}
				// node granularity: at least min(n, buffered) bytes, always a prefix of the content
				if len(got) < min || len(got) > len(model) || !bytes.Equal(got, model[:len(got)]) {
					t.Fatalf("Peek(%d) = %q (%d bytes), model %q", n, clipb(got), len(got), clipb(model))
				}
			},
			"peek-with-bytes": func(t *rapid.T) {
				a, b := genBytes(t, "pwa", 16), genBytes(t, "pwb", 16)
				n := len(genBytes(t, "pwn", 512))
				got := flat(llb.PeekWithBytes(n, a, b))
				all := concat(a, b, model)
				min := n
				if n <= 0 || n > len(all) {
					min = len(all)
				}
				if len(got) < min || len(got) > len(all) || !bytes.Equal(got, all[:len(got)]) {
					t.Fatalf("PeekWithBytes(%d) = %q, want a prefix (>= %d bytes) of %q", n, clipb(got), min, clipb(all))
				}
			},
			"discard": func(t *rapid.T) {
				n := len(genBytes(t, "d", 512))
				got, err := llb.Discard(n)
				want := n
				if want > len(model) {
					want = len(model)
				}
				if got != want || err != nil {
					t.Fatalf("Discard(%d) = %d, %v; model has %d", n, got, err, len(model))
				}
				model = model[want:]
				trace += fmt.Sprintf("d%d ", n)
				check("discard")
			},
			"reset": func(t *rapid.T) {
				llb.Reset()
				model = nil
				check("reset")
			},
			"read-from": func(t *rapid.T) {
				if !streams {
					t.Skip()
				}
				r := genReader(t, 512)
				n, err := llb.ReadFrom(r)
				if r.errAt < 0 && !r.eofData {
					if err != nil || int(n) != len(r.data) {
						t.Fatalf("ReadFrom = %d, %v; reader had %d bytes", n, err, len(r.data))
					}
					model = append(model, r.data...)
					hit("list_readfrom_clean")
				} else {
					model = resyncAppend(t, "linkedlist.ReadFrom", model, r.data[:r.given], func() []byte { return flat(llb.Peek(-1)) })
					hit("list_readfrom_faulty")
				}
				check("read-from")
			},
			"write-to": func(t *rapid.T) {
				if !streams {
					t.Skip()
				}
				w := &simWriter{budget: -1}
				if rapid.Bool().Draw(t, "wt-faulty") {
					w.budget = rapid.IntRange(0, len(model)+2).Draw(t, "wt-budget")
				}
				n, err := llb.WriteTo(w)
				if int(n) != len(w.got) || !bytes.Equal(w.got, model[:len(w.got)]) {
					t.Fatalf("WriteTo = %d, writer got %q, model %q", n, clipb(w.got), clipb(model))
				}
				if w.budget < 0 {
					if err != nil || len(w.got) != len(model) {
						t.Fatalf("WriteTo to an unlimited writer moved %d of %d bytes (err %v)", len(w.got), len(model), err)
					}
					model = nil
					hit("list_writeto_clean")
				} else {
					model = resyncSuffix(t, "linkedlist.WriteTo", model, len(w.got), func() []byte { return flat(llb.Peek(-1)) })
					hit("list_writeto_faulty")
				}
				check("write-to")
			},
		})
		if nontrivial {
			statMu.Lock()
			seqs["list:"+trace] = true
			statMu.Unlock()
		}
	})
}

// ---- elastic.Buffer (ring up to maxStatic bytes, then linked list) and elastic.RingBuffer (pooled ring) ----

func TestElastic(t *testing.T) {
	rapid.Check(t, func(t *rapid.T) {
		maxStatic := rapid.SampledFrom([]int{1, 16, 64, 257, 1024, 4096}).Draw(t, "max-static")
		mb, err := elastic.New(maxStatic)
		if err != nil {
			t.Fatalf("New: %v", err)
		}
		// a second buffer shares the byte-slice and ring pools: aliasing between buffers shows up as corruption
		other, _ := elastic.New(maxStatic)
		var model, omodel []byte
		trace := ""
		nontrivial := false
		check := func(op string) {
			if mb.Buffered() != len(model) {
				t.Fatalf("%s: Buffered()=%d, model has %d bytes", op, mb.Buffered(), len(model))
			}
			if mb.IsEmpty() != (len(model) == 0) {
				t.Fatalf("%s: IsEmpty()=%v, model has %d", op, mb.IsEmpty(), len(model))
			}
			if got := flat(mb.Peek(-1)); !bytes.Equal(got, model) {
				t.Fatalf("%s: content %q, model %q", op, clipb(got), clipb(model))
			}
			if got := flat(other.Peek(-1)); !bytes.Equal(got, omodel) {
				t.Fatalf("%s: the other buffer's content changed to %q, model %q (aliasing through a pool)", op, clipb(got), clipb(omodel))
			}
			if len(model) > maxStatic {
				hit("elastic_spilled_to_list")
				nontrivial = true
			}
		}
		t.Repeat(map[string]func(*rapid.T){
			"write": func(t *rapid.T) {
				p := genBytes(t, "w", maxStatic)
				n, err := mb.Write(p)
				if n != len(p) || err != nil {
					t.Fatalf("Write(%d) = %d, %v", len(p), n, err)
				}
				model = append(model, p...)
				trace += fmt.Sprintf("w%d ", len(p))
				check("write")
			},
			"writev": func(t *rapid.T) {
				k := rapid.IntRange(0, 5).Draw(t, "wv-n")
				var bs [][]byte
				total := 0
				for i := 0; i < k; i++ {
					p := genBytes(t, "wv", maxStatic)
					bs = append(bs, p)
					total += len(p)
				}
				n, err := mb.Writev(bs)
				if n != total || err != nil {
					t.Fatalf("Writev(%d slices, %d bytes) = %d, %v", k, total, n, err)
				}
				model = append(model, flat(bs)...)
				trace += fmt.Sprintf("wv%d/%d ", k, total)
				hit("elastic_writev")
				check("writev")
			},
			"other-write": func(t *rapid.T) {
				p := genBytes(t, "ow", maxStatic)
				_, _ = other.Write(p)
				omodel = append(omodel, p...)
				check("other-write")
			},
			"other-drain": func(t *rapid.T) {
				n := len(genBytes(t, "od", maxStatic))
				d, _ := other.Discard(n)
				omodel = omodel[d:]
				check("other-drain")
			},
			"read": func(t *rapid.T) {
				p := make([]byte, len(genBytes(t, "r", maxStatic)))
				n, _ := mb.Read(p)
				want := len(p)
				if want > len(model) {
					want = len(model)
				}
				if n != want || !bytes.Equal(p[:n], model[:n]) {
					t.Fatalf("Read(%d) = %d %q; model %q", len(p), n, clipb(p[:n]), clipb(model[:want]))
				}
				model = model[n:]
				trace += fmt.Sprintf("r%d ", len(p))
				check("read")
			},
			"peek": func(t *rapid.T) {
				n := len(genBytes(t, "p", maxStatic))
				got := flat(mb.Peek(n))
				min := n
				if n <= 0 || n > len(model) {
					min = len(model)
				}
				if len(got) < min || len(got) > len(model) || !bytes.Equal(got, model[:len(got)]) {
					t.Fatalf("Peek(%d) = %q (%d bytes), model %q", n, clipb(got), len(got), clipb(model))
				}
			},
			"discard": func(t *rapid.T) {
				n := len(genBytes(t, "d", maxStatic))
				got, _ := mb.Discard(n)
				want := n
				if want > len(model) {
					want = len(model)
				}
				if got != want {
					t.Fatalf("Discard(%d) = %d; model has %d", n, got, len(model))
				}
				model = model[want:]
				trace += fmt.Sprintf("d%d ", n)
				hit("elastic_partial_discard")
				check("discard")
			},
			"reset": func(t *rapid.T) {
				mb.Reset(0)
				model = nil
				check("reset")
			},
			"release": func(t *rapid.T) {
				mb.Release()
				model = nil
				check("release")
			},
			"read-from": func(t *rapid.T) {
				if !streams {
					t.Skip()
				}
				r := genReader(t, maxStatic)
				n, err := mb.ReadFrom(r)
				if r.errAt < 0 && !r.eofData {
					if err != nil || int(n) != len(r.data) {
						t.Fatalf("ReadFrom = %d, %v; reader had %d bytes", n, err, len(r.data))
					}
					model = append(model, r.data...)
				} else {
					model = resyncAppend(t, "elastic.ReadFrom", model, r.data[:r.given], func() []byte { return flat(mb.Peek(-1)) })
				}
				check("read-from")
			},
			"write-to": func(t *rapid.T) {
				if !streams {
					t.Skip()
				}
				w := &simWriter{budget: -1}
				if rapid.Bool().Draw(t, "wt-faulty") {
					w.budget = rapid.IntRange(0, len(model)+2).Draw(t, "wt-budget")
				}
				_, _ = mb.WriteTo(w)
				if !bytes.Equal(w.got, model[:min(len(w.got), len(model))]) || len(w.got) > len(model) {
					t.Fatalf("WriteTo wrote %q, model %q", clipb(w.got), clipb(model))
				}
				if w.budget < 0 {
					if len(w.got) != len(model) {
						t.Fatalf("WriteTo to an unlimited writer moved %d of %d bytes", len(w.got), len(model))
					}
					model = nil
				} else {
					model = resyncSuffix(t, "elastic.WriteTo", model, len(w.got), func() []byte { return flat(mb.Peek(-1)) })
				}
				check("write-to")
			},
		})
		if nontrivial {
			statMu.Lock()
			seqs["elastic:"+trace] = true
			statMu.Unlock()
		}
	})
}

func TestElasticRing(t *testing.T) {
	rapid.Check(t, func(t *rapid.T) {
		var rb, other elastic.RingBuffer
		var model, omodel []byte
		trace := ""
		nontrivial := false
		check := func(op string) {
			if rb.Buffered() != len(model) || rb.IsEmpty() != (len(model) == 0) {
				t.Fatalf("%s: Buffered()=%d IsEmpty()=%v, model has %d bytes", op, rb.Buffered(), rb.IsEmpty(), len(model))
			}
			h, tl := rb.Peek(-1)
			if !bytes.Equal(concat(h, tl), model) {
				t.Fatalf("%s: content %q, model %q", op, clipb(concat(h, tl)), clipb(model))
			}
			h, tl = other.Peek(-1)
			if !bytes.Equal(concat(h, tl), omodel) {
				t.Fatalf("%s: the other buffer's content changed to %q, model %q (ring recycled through the pool while in use)", op, clipb(concat(h, tl)), clipb(omodel))
			}
		}
		t.Repeat(map[string]func(*rapid.T){
			"write": func(t *rapid.T) {
				p := genBytes(t, "w", 1024)
				n, err := rb.Write(p)
				if n != len(p) || err != nil {
					t.Fatalf("Write(%d) = %d, %v", len(p), n, err)
				}
				model = append(model, p...)
				trace += fmt.Sprintf("w%d ", len(p))
				check("write")
			},
			"other-write": func(t *rapid.T) {
				p := genBytes(t, "ow", 1024)
				_, _ = other.Write(p)
				omodel = append(omodel, p...)
				check("other-write")
			},
			"other-drain": func(t *rapid.T) {
				d, _ := other.Discard(len(genBytes(t, "od", 1024)))
				omodel = omodel[d:]
				check("other-drain")
			},
			"read": func(t *rapid.T) {
				p := make([]byte, len(genBytes(t, "r", 1024)))
				n, _ := rb.Read(p)
				want := len(p)
				if want > len(model) {
					want = len(model)
				}
				if n != want || !bytes.Equal(p[:n], model[:n]) {
					t.Fatalf("Read(%d) = %d %q; model %q", len(p), n, clipb(p[:n]), clipb(model[:want]))
				}
				model = model[n:]
				if len(model) == 0 && n > 0 {
					hit("elasticring_returned_to_pool")
					nontrivial = true
				}
				trace += fmt.Sprintf("r%d ", len(p))
				check("read")
			},
			"discard": func(t *rapid.T) {
				n := len(genBytes(t, "d", 1024))
				got, _ := rb.Discard(n)
				want := n
				if want > len(model) {
					want = len(model)
				}
				if got != want {
					t.Fatalf("Discard(%d) = %d; model has %d", n, got, len(model))
				}
				model = model[want:]
				trace += fmt.Sprintf("d%d ", n)
				check("discard")
			},
			"peek": func(t *rapid.T) {
				n := len(genBytes(t, "p", 1024))
				h, tl := rb.Peek(n)
				want := n
				if n <= 0 || n > len(model) {
					want = len(model)
				}
				if got := concat(h, tl); !bytes.Equal(got, model[:want]) {
					t.Fatalf("Peek(%d) = %q, model %q", n, clipb(got), clipb(model[:want]))
				}
			},
			"done": func(t *rapid.T) {
				rb.Done()
				model = nil
				check("done")
			},
			"reset": func(t *rapid.T) {
				rb.Reset()
				model = nil
				check("reset")
			},
		})
		if nontrivial {
			statMu.Lock()
			seqs["ering:"+trace] = true
			statMu.Unlock()
		}
	})
}
