package simrun

// LIN: linearizability cross-check of the whole proxy + cluster against a per-key sequential model (porcupine).
//
// Several clients operate on a handful of SHARED keys (every other profile uses private, token-carrying keys). Each
// written value is unique, so every read is attributable to one write. The recorded client history - invocation =
// the driver action that handed the proxy the request's last byte, return = the driver action in which the client
// parsed the reply - is checked against a register/counter model partitioned by key. What it can see that the
// token-relational oracles cannot: a reply that is well-formed and "plausible" for the position but could not have
// been produced by ANY serial execution of the requests actually sent (stale or foreign data on shared keys, a write
// executed twice after a redirect or re-dial, an acknowledged write that never took effect).
//
// Outcomes under faults: an operation answered with an error, or not answered at all, has an unknown outcome: it may
// have taken effect at any time after its invocation or never (return = infinity, both successor states allowed).

import (
	"fmt"
	"os"
	"sort"
	"strconv"
	"strings"
	"sync/atomic"

	"github.com/anishathalye/porcupine"
)

func init() {
	register(&Profile{Name: "LIN", Prop: "C03", Gen: genLin, Check: checkLin})
}

func linKey(j int, slot int) string { return fmt.Sprintf("{%s}lk%d", TagForSlot(slot), j) }

func genLin(g *Gen) {
	p := g.Plan
	m := g.R.Range(3, 5)
	variant := p.Variant
	redir := variant == "redir" || variant == "swarm"
	faulty := variant == "faulty" || variant == "swarm"
	repl := 0
	if !redir {
		repl = g.R.Range(0, 1)
	}
	base := g.StdTopology(m, repl, false)
	p.Topos = []Topology{base}
	g.swarmProxy()
	p.Proxy.Password = ""
	g.swarmKernel(false)
	p.Sched.SettleS = 6
	p.Sched.MaxSteps = 3000
	nk := g.R.Range(1, 4)
	var slots []int
	var movedLo, movedHi, askLo int
	if redir {
		p.Proxy.DisableSlave = true
		for _, nd := range base.Nodes {
			p.Events = append(p.Events, Event{Kind: "set-view", When: When{Step: 1}, Node: nd.Addr, Topo: 0})
		}
		t2 := cloneTopo(base)
		src, dst := &t2.Nodes[0], &t2.Nodes[1]
		r := src.Slots[0]
		mid := (r[0] + r[1]) / 2
		src.Slots[0] = [2]int{r[0], mid}
		dst.Slots = append(dst.Slots, [2]int{mid + 1, r[1]})
		p.Topos = append(p.Topos, t2)
		p.Events = append(p.Events, Event{Kind: "set-topo", When: When{Step: 1}, Topo: 1})
		movedLo, movedHi = mid+1, r[1]
		askLo = base.Nodes[2].Slots[0][0]
	}
	seenSlot := map[int]bool{}
	for len(slots) < nk+1 {
		s := g.R.Intn(16384)
		if redir {
			switch g.R.Intn(3) {
			case 0:
				s = g.R.Range(movedLo, movedHi)
			case 1:
				s = askLo + g.R.Intn(20)
			}
		}
		if seenSlot[s] {
			continue
		}
		seenSlot[s] = true
		slots = append(slots, s)
		if redir && s >= askLo && s < askLo+20 {
			p.Events = append(p.Events, Event{Kind: "migrate", When: When{Step: 2}, Slot: s, To: base.Nodes[0].Addr})
		}
	}
	keys := make([]string, nk)
	for j := range keys {
		keys[j] = linKey(j, slots[j])
	}
	counter := fmt.Sprintf("{%s}lc", TagForSlot(slots[nk]))
	if faulty {
		p.Faulty = true
		if g.R.Pct(50) {
			p.Proxy.TimeoutMs = g.R.Range(50, 400)
		}
	}
	nc := g.R.Range(2, 5)
	budget := 150
	for ci := 0; ci < nc; ci++ {
		// closed loop with a window of 1-4 outstanding requests: unbounded pipelining makes all of a client's operations mutually
		// concurrent for the checker (it cannot know the per-connection FIFO), which is exponential to search
		cp := ClientPlan{Addr: clientAddr(ci), Mode: "closed", Window: []int{1, 1, 2, 3, 4}[g.R.Intn(5)], CloseAfterSent: -1, CloseAfterReplies: -1,
			StartStep: 3 + g.R.Intn(20)}
		n := g.R.Range(4, 30)
		if n > budget/nc {
			n = budget / nc
		}
		for ri := 0; ri < n; ri++ {
			tok := Tok(ci, ri)
			val := "v" + tok + "k0"
			k := keys[g.R.Intn(nk)]
			var rq ReqPlan
			mk := func(cmd string, ks []string, vs []string, args ...string) ReqPlan {
				a := append([]string{g.CaseMix(cmd)}, args...)
				return ReqPlan{Raw: EncodeCommandS(a...), Class: "lin", Cmd: cmd, Keys: ks, Vals: vs, Tok: tok}
			}
			switch g.R.Intn(14) {
			case 0, 1, 2:
				rq = mk("get", []string{k}, nil, k)
			case 3, 4:
				rq = mk("set", []string{k}, []string{val}, k, val)
			case 5:
				rq = mk("getset", []string{k}, []string{val}, k, val)
			case 6:
				rq = mk("setnx", []string{k}, []string{val}, k, val)
			case 7:
				rq = mk("append", []string{k}, []string{val}, k, val)
			case 8:
				if g.R.Pct(50) {
					rq = mk("incr", []string{counter}, nil, counter)
				} else {
					rq = mk("decr", []string{counter}, nil, counter)
				}
			case 9:
				kk := g.R.Pick([]string{k, counter})
				rq = mk(g.R.Pick([]string{"strlen", "exists"}), []string{kk}, nil, kk)
			case 10:
				kk := g.R.Pick([]string{k, k, counter})
				rq = mk("del", []string{kk}, nil, kk)
			case 11:
				// MGET over several shared keys (duplicates allowed): split per slot by the proxy
				cnt := g.R.Range(1, 4)
				var ks []string
				for i := 0; i < cnt; i++ {
					ks = append(ks, g.R.Pick(append(append([]string{}, keys...), counter)))
				}
				rq = mk("mget", ks, nil, ks...)
			case 12:
				cnt := g.R.Range(1, nk)
				var ks, vs, args []string
				perm := g.R.Perm(nk)
				for i := 0; i < cnt; i++ {
					ks = append(ks, keys[perm[i]])
					vs = append(vs, fmt.Sprintf("v%sk%d", tok, i))
					args = append(args, ks[i], vs[i])
				}
				rq = mk("mset", ks, vs, args...)
			default:
				cnt := g.R.Range(1, nk)
				var ks []string
				perm := g.R.Perm(nk)
				for i := 0; i < cnt; i++ {
					ks = append(ks, keys[perm[i]])
				}
				rq = mk("del", ks, nil, ks...)
			}
			cp.Reqs = append(cp.Reqs, rq)
		}
		if faulty && g.R.Pct(30) {
			// disconnect with requests in flight (their outcome is unknown); a later client may reuse the fd and pooled objects
			total := 0
			for _, r := range cp.Reqs {
				total += len(r.Raw)
			}
			cp.CloseRst = g.R.Pct(50)
			if g.R.Pct(50) {
				cp.CloseAfterSent = g.R.Range(1, total)
			} else {
				cp.CloseAfterSent = total
				cp.CloseAfterReplies = g.R.Intn(len(cp.Reqs))
			}
		}
		if faulty && ci > 0 && p.Clients[ci-1].CloseAfterSent >= 0 && g.R.Pct(60) {
			cp.StartAfterClient = ci
			cp.StartStep = 0
		}
		p.Clients = append(p.Clients, cp)
	}
	if faulty {
		for i := g.R.Range(1, 2); i > 0; i-- {
			ci := g.R.Intn(nc)
			// writes carry their token in the value, so the fault can be placed on the connection holding that very write
			var cand []int
			for ri, r := range p.Clients[ci].Reqs {
				if len(r.Vals) > 0 {
					cand = append(cand, ri)
				}
			}
			if len(cand) == 0 {
				continue
			}
			tok := Tok(ci, cand[g.R.Intn(len(cand))])
			kind := "kill-conn"
			if p.Proxy.TimeoutMs > 0 && g.R.Pct(25) {
				kind = "stall-conn"
			}
			p.Events = append(p.Events, Event{Kind: kind, When: When{Token: tok, Phase: g.R.Pick([]string{"written", "consumed", "partial"})}, Rst: g.R.Pct(50)})
		}
		if g.R.Pct(12) {
			node := base.Nodes[g.R.Intn(m)].Addr
			p.Events = append(p.Events, Event{Kind: "node-down", When: When{AfterMs: g.R.Range(1, 300)}, Node: node})
			p.Events = append(p.Events, Event{Kind: "node-up", When: When{AfterMs: g.R.Range(310, 700)}, Node: node})
		}
	}
}

// ---- the sequential model ----

type linState struct {
	Present bool
	Val     string
}

type linIn struct {
	Op, Key, Arg string
}

type linOut struct {
	Unknown bool   // outcome unknown: executed at some point after the invocation, or never
	Exec    bool   // certainly executed, result not attributable to this key (part of a multi-key DEL sum)
	Raw     string // the reply bytes (or, for the parts of an MGET, the element's encoding)
}

// linApply: reply and successor state of one single-key operation in the reference model.
func linApply(s linState, in linIn) (string, linState) {
	switch in.Op {
	case "get":
		if !s.Present {
			return "$-1\r\n", s
		}
		return string(Bulk([]byte(s.Val))), s
	case "set":
		return "+OK\r\n", linState{true, in.Arg}
	case "getset":
		old := "$-1\r\n"
		if s.Present {
			old = string(Bulk([]byte(s.Val)))
		}
		return old, linState{true, in.Arg}
	case "setnx":
		if s.Present {
			return ":0\r\n", s
		}
		return ":1\r\n", linState{true, in.Arg}
	case "append":
		v := s.Val + in.Arg
		return fmt.Sprintf(":%d\r\n", len(v)), linState{true, v}
	case "strlen":
		return fmt.Sprintf(":%d\r\n", len(s.Val)), s
	case "exists":
		if s.Present {
			return ":1\r\n", s
		}
		return ":0\r\n", s
	case "del":
		if s.Present {
			return ":1\r\n", linState{}
		}
		return ":0\r\n", linState{}
	case "incr", "decr":
		cur := int64(0)
		if s.Present {
			x, err := strconv.ParseInt(s.Val, 10, 64)
			if err != nil {
				return "-ERR value is not an integer or out of range\r\n", s
			}
			cur = x
		}
		if in.Op == "incr" {
			cur++
		} else {
			cur--
		}
		return fmt.Sprintf(":%d\r\n", cur), linState{true, strconv.FormatInt(cur, 10)}
	}
	return "?", s
}

func linIsRead(op string) bool { return op == "get" || op == "strlen" || op == "exists" }

var linModel = (&porcupine.NondeterministicModel{
	Partition: func(h []porcupine.Operation) [][]porcupine.Operation {
		by := map[string][]porcupine.Operation{}
		var ks []string
		for _, o := range h {
			k := o.Input.(linIn).Key
			if _, ok := by[k]; !ok {
				ks = append(ks, k)
			}
			by[k] = append(by[k], o)
		}
		sort.Strings(ks)
		var out [][]porcupine.Operation
		for _, k := range ks {
			out = append(out, by[k])
		}
		return out
	},
	Init: func() []interface{} { return []interface{}{linState{}} },
	Step: func(st, in, out interface{}) []interface{} {
		s, i, o := st.(linState), in.(linIn), out.(linOut)
		rep, ns := linApply(s, i)
		switch {
		case o.Unknown:
			if ns == s {
				return []interface{}{s}
			}
			return []interface{}{s, ns}
		case o.Exec:
			return []interface{}{ns}
		case o.Raw == rep:
			return []interface{}{ns}
		}
		return nil
	},
	DescribeOperation: func(in, out interface{}) string {
		i, o := in.(linIn), out.(linOut)
		r := strings.TrimSpace(o.Raw)
		if o.Unknown {
			r = "?"
		} else if o.Exec {
			r = "(executed)"
		}
		return fmt.Sprintf("%s %s %s -> %q", i.Op, i.Key, i.Arg, r)
	},
}).ToModel()

// OracleBusy tells the real-time watchdog that the driver is inside a history oracle (no simulated progress is due).
var OracleBusy int32

const linInf = int64(1) << 60
const linMaxUnknown = 5

func checkLin(d *Driver, res *Result) {
	var ops []porcupine.Operation
	unknown, errs, served := 0, 0, 0
	var descr []string
	for _, c := range d.Clients {
		if !c.Connected {
			continue
		}
		for i := range c.Plan.Reqs {
			rq := &c.Plan.Reqs[i]
			if c.sent < c.bounds[i] || c.SentH[i] == 0 {
				continue // never completely handed to the proxy: cannot have had any effect
			}
			call := int64(c.SentH[i]) * 2
			ret := linInf
			var got []byte
			if i < len(c.Replies) {
				got = c.Replies[i]
			}
			isErr := len(got) > 0 && got[0] == '-'
			known := got != nil && !isErr
			if known {
				ret = int64(c.ReplyH[i])*2 + 1
				served++
			} else {
				unknown++
				if isErr {
					errs++
				}
			}
			add := func(op, key, arg string, out linOut) {
				if out.Unknown && linIsRead(op) {
					return // a read with an unknown result constrains nothing
				}
				r := ret
				if out.Unknown {
					r = linInf
				}
				ops = append(ops, porcupine.Operation{ClientId: c.Idx, Input: linIn{op, key, arg}, Call: call, Output: out, Return: r})
			}
			arg := func(j int) string {
				if j < len(rq.Vals) {
					return rq.Vals[j]
				}
				return ""
			}
			switch {
			case rq.Cmd == "mget":
				var rep Reply
				ok := false
				if known {
					var st RStatus
					rep, _, st = ParseReply(got)
					ok = st == ROk && rep.Kind == '*' && len(rep.Elems) == len(rq.Keys)
					if !ok {
						d.violate("C03", "not-linearizable", map[string]string{"how": "mget-shape"}, "client %d request %d: MGET of %d keys answered %q", c.Idx, i, len(rq.Keys), clip(got, 120))
					}
				}
				for j, k := range rq.Keys {
					if !ok {
						continue // unknown reads are dropped
					}
					el := rep.Elems[j]
					raw := "$-1\r\n"
					if !el.Null {
						raw = string(Bulk(el.Str))
					}
					add("get", k, "", linOut{Raw: raw})
				}
			case rq.Cmd == "mset":
				for j, k := range rq.Keys {
					if known {
						add("set", k, arg(j), linOut{Raw: string(got)})
					} else {
						add("set", k, arg(j), linOut{Unknown: true})
					}
				}
			case rq.Cmd == "del" && len(rq.Keys) > 1:
				sum := int64(-1)
				if known {
					if rep, _, st := ParseReply(got); st == ROk && rep.Kind == ':' {
						sum, _ = strconv.ParseInt(string(rep.Str), 10, 64)
					} else {
						d.violate("C03", "not-linearizable", map[string]string{"how": "del-shape"}, "client %d request %d: DEL answered %q", c.Idx, i, clip(got, 120))
						known = false
					}
				}
				for _, k := range rq.Keys {
					switch {
					case !known:
						add("del", k, "", linOut{Unknown: true})
					case sum == 0:
						add("del", k, "", linOut{Raw: ":0\r\n"})
					case sum == int64(len(rq.Keys)):
						add("del", k, "", linOut{Raw: ":1\r\n"})
					default:
						add("del", k, "", linOut{Exec: true})
					}
				}
			default:
				if known {
					add(rq.Cmd, rq.Keys[0], arg(0), linOut{Raw: string(got)})
				} else {
					add(rq.Cmd, rq.Keys[0], arg(0), linOut{Unknown: true})
				}
			}
			if len(descr) < 12 {
				descr = append(descr, fmt.Sprintf("c%d:%s%v->%q", c.Idx, rq.Cmd, rq.Keys, clip(got, 24)))
			}
		}
	}
	// bound the search: every operation with an unknown outcome stays pending forever and doubles the successor states, so
	// the cost is exponential in their number per key. A key with more than linMaxUnknown of them is not checked in this run
	// (counted as skipped, never reported).
	unkPerKey := map[string]int{}
	for _, o := range ops {
		if o.Output.(linOut).Unknown {
			unkPerKey[o.Input.(linIn).Key]++
		}
	}
	kept := ops[:0:0]
	skippedKeys := map[string]bool{}
	for _, o := range ops {
		k := o.Input.(linIn).Key
		if unkPerKey[k] > linMaxUnknown {
			skippedKeys[k] = true
			continue
		}
		kept = append(kept, o)
	}
	d.Counters["lin_keys_skipped_too_many_unknown"] = len(skippedKeys)
	ops = kept
	if os.Getenv("SIM_LIN_DEBUG") != "" {
		for _, part := range linModel.Partition(ops) {
			u := 0
			for _, o := range part {
				if o.Output.(linOut).Unknown {
					u++
				}
			}
			fmt.Fprintf(os.Stderr, "lin: key %s: %d ops, %d unknown\n", part[0].Input.(linIn).Key, len(part), u)
			for _, o := range part {
				fmt.Fprintf(os.Stderr, "   c%d %d..%d %s\n", o.ClientId, o.Call, o.Return, linModel.DescribeOperation(o.Input, o.Output))
			}
		}
	}
	atomic.StoreInt32(&OracleBusy, 1)
	result := porcupine.CheckOperationsTimeout(linModel, ops, 0)
	atomic.StoreInt32(&OracleBusy, 0)
	d.Counters["lin_ops"] = len(ops)
	d.Counters["lin_unknown_outcomes"] = unknown
	d.Counters["lin_error_replies"] = errs
	d.Counters["lin_redirects"] = d.C.Redirects
	if result == porcupine.Illegal {
		// name the key whose sub-history has no linearization, for the message
		bad := ""
		for _, part := range linModel.Partition(ops) {
			if !porcupine.CheckOperations(linModel, part) {
				bad = part[0].Input.(linIn).Key
				var hs []string
				sort.Slice(part, func(a, b int) bool { return part[a].Call < part[b].Call })
				for _, o := range part {
					r := fmt.Sprint(o.Return)
					if o.Return == linInf {
						r = "inf"
					}
					hs = append(hs, fmt.Sprintf("[c%d %d..%s %s]", o.ClientId, o.Call, r, linModel.DescribeOperation(o.Input, o.Output)))
					if len(hs) > 40 {
						break
					}
				}
				kind := "register"
				if strings.HasSuffix(bad, "lc") {
					kind = "counter"
				}
				d.violate("C03", "not-linearizable", map[string]string{"key": kind},
					"the client-observed history on shared key %s has no linearization against a single-copy register: %s", bad, strings.Join(hs, " "))
				break
			}
		}
	}
	conc := 0
	for a := range ops {
		for b := a + 1; b < len(ops) && b < a+30; b++ {
			if ops[a].ClientId != ops[b].ClientId && ops[a].Input.(linIn).Key == ops[b].Input.(linIn).Key && ops[a].Call < ops[b].Return && ops[b].Call < ops[a].Return {
				conc++
			}
		}
	}
	d.Counters["lin_concurrent_pairs"] = conc
	res.Nontrivial = conc > 0 && served > 3
	res.Sample = fmt.Sprintf("%d clients, %d operations on shared keys (%d with unknown outcome, %d error replies), %d concurrent same-key pairs, %d redirects, first ops: %s",
		len(d.Clients), len(ops), unknown, errs, conc, d.C.Redirects, strings.Join(descr, " "))
}

// ---- C10redir: order at the final node among requests of one client that were redirected along the same path ----
//
// C10 speaks about the order in which one client's requests arrive at a node. With redirects in play the order between a
// redirected request and one that went to the node directly is not determined (the former needs an extra round trip), but
// two requests of one client that node A redirects to node B - A answers in order, one connection per node - must arrive
// at B in the order sent. Generator: the redirect profile (stale view, MOVED and ASK), one connection per node.

func init() {
	register(&Profile{Name: "C10redir", Prop: "C10", Gen: func(g *Gen) {
		genC13(g)
		g.Plan.Proxy.ServerConns = 1
		g.Plan.Proxy.TimeoutMs = 0
	}, Check: checkC10redir})
}

func checkC10redir(d *Driver, res *Result) {
	// per request token prefix (c<i>r<j>): the nodes that redirected it and the node that finally executed it
	type hist struct {
		redirs []string
		final  string
		at     int // position of the executing record in the global backend log
		name   string
	}
	reqs := map[string]*hist{}
	for idx, r := range d.C.Log {
		if (r.Kind != "data" && r.Kind != "redirect") || len(r.Tokens) == 0 {
			continue
		}
		ci, ri := reqIndexOfToken(r.Tokens[0])
		c := d.Clients[ci]
		if ri >= len(c.Plan.Reqs) || c.Plan.Reqs[ri].Class != "single" {
			continue // fragments of split requests share a token prefix; keep the oracle to single-key requests
		}
		k := Tok(ci, ri)
		h := reqs[k]
		if h == nil {
			h = &hist{}
			reqs[k] = h
		}
		if r.Kind == "redirect" {
			h.redirs = append(h.redirs, r.Node)
		} else {
			h.final, h.at, h.name = r.Node, idx, r.Name
		}
	}
	type path struct {
		ci       int
		from, to string
	}
	last := map[path][2]int{} // request index, log position
	pairs := 0
	for ci, c := range d.Clients {
		for ri := range c.Plan.Reqs {
			h := reqs[Tok(ci, ri)]
			if h == nil || h.final == "" || len(h.redirs) != 1 {
				continue
			}
			p := path{ci, h.redirs[0], h.final}
			if prev, ok := last[p]; ok {
				pairs++
				if h.at < prev[1] {
					d.violate("C10", "order-at-node", map[string]string{"how": "after-redirect"},
						"client %d: requests %d and %d were both redirected by %s to %s, which executed request %d (%s) before request %d", ci, prev[0], ri, p.from, p.to, ri, h.name, prev[0])
					return
				}
			}
			last[p] = [2]int{ri, h.at}
		}
	}
	d.Counters["c10_redirected_same_path_pairs"] = pairs
	res.Nontrivial = pairs > 0
	res.Sample = fmt.Sprintf("%d clients, %d requests, %d pairs of consecutive same-path redirected requests, %d redirects", len(d.Clients), totalReqs(d), pairs, d.C.Redirects)
}
