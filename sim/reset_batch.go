//go:build verifbatch

package simrun

import (
	"rcproxy/core"
	"rcproxy/core/server"
)

// batchSupported: this binary was built with the overlay-added core.VerifResetForNewRun (tools/gen_build.py).
const batchSupported = true

func resetProxyGlobals() {
	core.VerifResetForNewRun()
	server.VerifResetForNewRun()
}
