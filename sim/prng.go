package simrun

// Deterministic choice sources. One integer (the run seed) decides everything:
//   - plan generation draws from rng streams derived from the seed (Gen),
//   - every schedule / fault / size choice made while the run executes goes through Tape.Choose, which either
//     draws from the seed-derived stream and records the value, or replays a recorded tape.
// Logging never draws from any of these.

type Rng struct{ s uint64 }

func NewRng(seed uint64) *Rng { return &Rng{s: seed*0x9e3779b97f4a7c15 + 0x1234567} }

func (r *Rng) Next() uint64 {
	r.s += 0x9e3779b97f4a7c15
	z := r.s
	z = (z ^ (z >> 30)) * 0xbf58476d1ce4e5b9
	z = (z ^ (z >> 27)) * 0x94d049bb133111eb
	return z ^ (z >> 31)
}

// Intn returns a value in [0,n). n<=1 returns 0 without drawing.
func (r *Rng) Intn(n int) int {
	if n <= 1 {
		return 0
	}
	return int(r.Next() % uint64(n))
}

func (r *Rng) Pct(p int) bool { return r.Intn(100) < p }

func (r *Rng) Range(lo, hi int) int { // inclusive
	if hi <= lo {
		return lo
	}
	return lo + r.Intn(hi-lo+1)
}

func (r *Rng) Pick(xs []string) string { return xs[r.Intn(len(xs))] }

// Perm returns a permutation of 0..n-1 (Fisher-Yates).
func (r *Rng) Perm(n int) []int {
	p := make([]int, n)
	for i := range p {
		p[i] = i
	}
	for i := n - 1; i > 0; i-- {
		j := r.Intn(i + 1)
		p[i], p[j] = p[j], p[i]
	}
	return p
}

func (r *Rng) Derive(label string) *Rng {
	h := r.s ^ 0xabcdef
	for i := 0; i < len(label); i++ {
		h = (h ^ uint64(label[i])) * 0x100000001b3
	}
	return NewRng(h)
}

// Tape is the explicit list of run-time choices. In record mode values come from the rng; in replay mode
// from Rec (a tape that runs out yields 0 = "the default choice").
type Tape struct {
	rng    *Rng
	Replay bool
	Rec    []int
	pos    int
}

func (t *Tape) Choose(n int) int {
	if n <= 1 {
		return 0
	}
	if t.Replay {
		v := 0
		if t.pos < len(t.Rec) {
			v = t.Rec[t.pos]
		}
		t.pos++
		if v < 0 {
			v = 0
		}
		return v % n
	}
	v := t.rng.Intn(n)
	t.Rec = append(t.Rec, v)
	return v
}

func (t *Tape) Pct(p int) bool {
	if p <= 0 {
		return false
	}
	if p >= 100 {
		return true
	}
	return t.Choose(100) >= 100-p // tape value 0 = the benign outcome
}

// rngNextForMap: the value handed to the runtime for map hash seeds / iteration offsets during the next poll.
func (t *Tape) rngNextForMap() uint64 {
	return uint64(t.Choose(65536))*0x9e3779b97f4a7c15 + 0x632be59bd9b4e019
}
