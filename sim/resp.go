package simrun

// RESP helpers that are independent of rcproxy's codecs:
//   - ParseRedisQuery mirrors redis-server's processMultibulkBuffer / processInlineBuffer (what a real node
//     accepts, skips, or rejects with "Protocol error"),
//   - ParseReply is a strict RESP2 reply parser used on the client side,
//   - RefSlot is the specification's key-slot function (bitwise CRC16/XMODEM + hash tag rule).

import (
	"bytes"
	"fmt"
	"strconv"
)

type QStatus int

const (
	QOk         QStatus = iota // one complete command parsed
	QIncomplete                // need more bytes
	QSkip                      // consumed bytes that produce no command (e.g. "*0\r\n", empty inline line)
	QProtoErr                  // redis would reply "-ERR Protocol error: ..." and close
)

// string2ll as in redis util.c: canonical decimal only.
func string2ll(b []byte) (int64, bool) {
	if len(b) == 0 || len(b) > 20 {
		return 0, false
	}
	if len(b) == 1 && b[0] == '0' {
		return 0, true
	}
	i := 0
	neg := false
	if b[0] == '-' {
		neg = true
		i++
		if i == len(b) {
			return 0, false
		}
	}
	if b[i] < '1' || b[i] > '9' {
		return 0, false
	}
	var v uint64
	for ; i < len(b); i++ {
		c := b[i]
		if c < '0' || c > '9' {
			return 0, false
		}
		if v > (1<<63)/10 {
			return 0, false
		}
		v = v*10 + uint64(c-'0')
		if v > 1<<63 {
			return 0, false
		}
	}
	if neg {
		return -int64(v), true
	}
	if v > 1<<63-1 {
		return 0, false
	}
	return int64(v), true
}

// ParseRedisQuery parses the first query in buf the way redis-server does.
func ParseRedisQuery(buf []byte) (args [][]byte, n int, st QStatus, why string) {
	if len(buf) == 0 {
		return nil, 0, QIncomplete, ""
	}
	if buf[0] != '*' {
		// inline command
		nl := bytes.IndexByte(buf, '\n')
		if nl < 0 {
			if len(buf) > 64*1024 {
				return nil, 0, QProtoErr, "too big inline request"
			}
			return nil, 0, QIncomplete, ""
		}
		line := buf[:nl]
		if len(line) > 0 && line[len(line)-1] == '\r' {
			line = line[:len(line)-1]
		}
		if bytes.ContainsAny(line, "\"'") {
			// quoting rules of sdssplitargs: unbalanced quotes are a protocol error; keep it simple and strict
			if bytes.Count(line, []byte{'"'})%2 == 1 || bytes.Count(line, []byte{'\''})%2 == 1 {
				return nil, nl + 1, QProtoErr, "unbalanced quotes in request"
			}
		}
		f := bytes.Fields(line)
		if len(f) == 0 {
			return nil, nl + 1, QSkip, ""
		}
		return f, nl + 1, QOk, "inline"
	}
	cr := bytes.IndexByte(buf, '\r')
	if cr < 0 {
		if len(buf) > 64*1024 {
			return nil, 0, QProtoErr, "too big mbulk count string"
		}
		return nil, 0, QIncomplete, ""
	}
	if cr+1 >= len(buf) {
		return nil, 0, QIncomplete, ""
	}
	cnt, ok := string2ll(buf[1:cr])
	if !ok || cnt > 1024*1024 {
		return nil, 0, QProtoErr, "invalid multibulk length"
	}
	pos := cr + 2
	if cnt <= 0 {
		return nil, pos, QSkip, ""
	}
	for i := int64(0); i < cnt; i++ {
		if pos >= len(buf) {
			return nil, 0, QIncomplete, ""
		}
		rel := bytes.IndexByte(buf[pos:], '\r')
		if rel < 0 {
			if len(buf)-pos > 64*1024 {
				return nil, 0, QProtoErr, "too big bulk count string"
			}
			return nil, 0, QIncomplete, ""
		}
		cr = pos + rel
		if cr+1 >= len(buf) {
			return nil, 0, QIncomplete, ""
		}
		if buf[pos] != '$' {
			return nil, 0, QProtoErr, fmt.Sprintf("expected '$', got '%c'", buf[pos])
		}
		l, ok := string2ll(buf[pos+1 : cr])
		if !ok || l < 0 || l > 512*1024*1024 {
			return nil, 0, QProtoErr, "invalid bulk length"
		}
		pos = cr + 2
		if pos+int(l)+2 > len(buf) {
			return nil, 0, QIncomplete, ""
		}
		args = append(args, buf[pos:pos+int(l)])
		pos += int(l) + 2
	}
	return args, pos, QOk, ""
}

// EncodeCommand renders args as a canonical multibulk request.
func EncodeCommand(args ...[]byte) []byte {
	var b bytes.Buffer
	b.WriteByte('*')
	b.WriteString(strconv.Itoa(len(args)))
	b.WriteString("\r\n")
	for _, a := range args {
		b.WriteByte('$')
		b.WriteString(strconv.Itoa(len(a)))
		b.WriteString("\r\n")
		b.Write(a)
		b.WriteString("\r\n")
	}
	return b.Bytes()
}

func EncodeCommandS(args ...string) []byte {
	bs := make([][]byte, len(args))
	for i, a := range args {
		bs[i] = []byte(a)
	}
	return EncodeCommand(bs...)
}

func Bulk(b []byte) []byte {
	return []byte("$" + strconv.Itoa(len(b)) + "\r\n" + string(b) + "\r\n")
}

var NilBulk = []byte("$-1\r\n")

type RStatus int

const (
	ROk RStatus = iota
	RIncomplete
	RMalformed
)

// Reply is a parsed RESP2 value.
type Reply struct {
	Kind  byte // '+', '-', ':', '$', '*'
	Str   []byte
	Null  bool
	Elems []Reply
	Raw   []byte
}

// ParseReply parses one strict RESP2 reply from the front of buf.
func ParseReply(buf []byte) (r Reply, n int, st RStatus) {
	if len(buf) == 0 {
		return r, 0, RIncomplete
	}
	line := func(from int) (int, int, bool) { // returns start,end of line content and ok
		i := bytes.Index(buf[from:], []byte("\r\n"))
		if i < 0 {
			return 0, 0, false
		}
		return from, from + i, true
	}
	switch buf[0] {
	case '+', '-', ':':
		s, e, ok := line(1)
		if !ok {
			// a bare \n or \r inside a simple line is malformed, but we cannot know until CRLF arrives
			return r, 0, RIncomplete
		}
		if bytes.IndexByte(buf[s:e], '\n') >= 0 || bytes.IndexByte(buf[s:e], '\r') >= 0 {
			return r, 0, RMalformed
		}
		if buf[0] == ':' {
			if _, ok := string2llLoose(buf[s:e]); !ok {
				return r, 0, RMalformed
			}
		}
		r.Kind = buf[0]
		r.Str = buf[s:e]
		r.Raw = buf[:e+2]
		return r, e + 2, ROk
	case '$':
		s, e, ok := line(1)
		if !ok {
			if len(buf) > 32 {
				return r, 0, RMalformed
			}
			return r, 0, RIncomplete
		}
		l, ok2 := string2ll(buf[s:e])
		if !ok2 || l < -1 {
			return r, 0, RMalformed
		}
		r.Kind = '$'
		if l == -1 {
			r.Null = true
			r.Raw = buf[:e+2]
			return r, e + 2, ROk
		}
		p := e + 2
		if p+int(l)+2 > len(buf) {
			return r, 0, RIncomplete
		}
		if buf[p+int(l)] != '\r' || buf[p+int(l)+1] != '\n' {
			return r, 0, RMalformed
		}
		r.Str = buf[p : p+int(l)]
		r.Raw = buf[:p+int(l)+2]
		return r, p + int(l) + 2, ROk
	case '*':
		s, e, ok := line(1)
		if !ok {
			if len(buf) > 32 {
				return r, 0, RMalformed
			}
			return r, 0, RIncomplete
		}
		l, ok2 := string2ll(buf[s:e])
		if !ok2 || l < -1 {
			return r, 0, RMalformed
		}
		r.Kind = '*'
		p := e + 2
		if l == -1 {
			r.Null = true
			r.Raw = buf[:p]
			return r, p, ROk
		}
		for i := int64(0); i < l; i++ {
			el, m, st := ParseReply(buf[p:])
			if st != ROk {
				return r, 0, st
			}
			r.Elems = append(r.Elems, el)
			p += m
		}
		r.Raw = buf[:p]
		return r, p, ROk
	}
	return r, 0, RMalformed
}

func string2llLoose(b []byte) (int64, bool) {
	v, err := strconv.ParseInt(string(b), 10, 64)
	return v, err == nil
}

// RefSlot: Redis Cluster specification key slot. CRC16/XMODEM computed bitwise (poly 0x1021, init 0).
func RefSlot(key []byte) int {
	s := bytes.IndexByte(key, '{')
	if s >= 0 {
		e := bytes.IndexByte(key[s+1:], '}')
		if e > 0 { // non-empty tag
			key = key[s+1 : s+1+e]
		}
	}
	var crc uint16
	for _, b := range key {
		crc ^= uint16(b) << 8
		for i := 0; i < 8; i++ {
			if crc&0x8000 != 0 {
				crc = crc<<1 ^ 0x1021
			} else {
				crc <<= 1
			}
		}
	}
	return int(crc % 16384)
}

// StrictCommand checks that raw is exactly one canonical RESP multibulk command: "*<n>\r\n" followed by n bulks
// "$<len>\r\n<len bytes>\r\n" with canonical decimal numbers, and nothing else. This is stricter than redis-server's
// reader, which skips the two bytes after a bulk payload without looking at them; it is what "well-formed" means for the
// commands the proxy itself generates (C06).
func StrictCommand(raw []byte) error {
	num := func(at int) (int, int, error) { // returns value, index after CRLF
		i := at
		for i < len(raw) && raw[i] >= '0' && raw[i] <= '9' {
			i++
		}
		if i == at || (raw[at] == '0' && i-at > 1) {
			return 0, 0, fmt.Errorf("non-canonical number at byte %d", at)
		}
		if i+1 >= len(raw) || raw[i] != '\r' || raw[i+1] != '\n' {
			return 0, 0, fmt.Errorf("number at byte %d is not followed by CRLF", at)
		}
		v, err := strconv.Atoi(string(raw[at:i]))
		if err != nil {
			return 0, 0, err
		}
		return v, i + 2, nil
	}
	if len(raw) == 0 || raw[0] != '*' {
		return fmt.Errorf("does not start with '*'")
	}
	n, pos, err := num(1)
	if err != nil {
		return err
	}
	if n < 1 {
		return fmt.Errorf("argument count %d", n)
	}
	for a := 0; a < n; a++ {
		if pos >= len(raw) || raw[pos] != '$' {
			return fmt.Errorf("argument %d: '$' expected at byte %d", a, pos)
		}
		l, p2, err := num(pos + 1)
		if err != nil {
			return fmt.Errorf("argument %d: %v", a, err)
		}
		if p2+l+2 > len(raw) {
			return fmt.Errorf("argument %d: truncated", a)
		}
		if raw[p2+l] != '\r' || raw[p2+l+1] != '\n' {
			return fmt.Errorf("argument %d: payload is terminated by %q instead of CRLF", a, raw[p2+l:p2+l+2])
		}
		pos = p2 + l + 2
	}
	if pos != len(raw) {
		return fmt.Errorf("%d trailing bytes", len(raw)-pos)
	}
	return nil
}
