package simrun

// The seeded scheduler: owns every delivery, release, poll grant, time advance and fault. See DESIGN.md 3.5.

import (
	"context"
	"fmt"
	"math/rand"
	"net"
	"os"
	"runtime"
	"sort"
	"strings"
	"sync/atomic"
	"syscall"
	"testing/synctest"
	"time"

	"golang.org/x/sys/unix"

	"rcproxy/core"
	"rcproxy/core/server"
)

type ClientState struct {
	Idx         int
	Plan        *ClientPlan
	Sock        *Sock
	stream      []byte
	bounds      []int // end offset of request i in stream
	sent        int
	recv        []byte
	Replies     [][]byte
	ReplySeq    []uint64 // kernel seq at which reply i was completely received by the client
	ReplyStep   []int
	ReplyRound  []int
	Malformed   bool
	Connected   bool
	SelfClosed  bool
	ProxyClosed bool
	chunkIdx    int
	connectedAt time.Time
	SentSeq     []uint64 // seq at which the last byte of request i was delivered to the proxy's socket
	SentAt      []time.Duration
	ReplyAt     []time.Duration
	SentH       []int // driver history stamp (strictly increasing per send/recv action) when request i was completely sent
	ReplyH      []int // ... when reply i was parsed by the client
	done        bool
	// CleanStart: when this client handed over its first byte, the proxy had already noticed (closed its descriptor of) every
	// backend connection the driver had killed until then
	CleanStart bool
}

func (c *ClientState) reqsSent() int {
	n := 0
	for _, b := range c.bounds {
		if c.sent >= b {
			n++
		}
	}
	return n
}

type Violation struct {
	Prop   string            `json:"prop"`
	Kind   string            `json:"kind"`
	Detail map[string]string `json:"detail,omitempty"`
	Msg    string            `json:"msg"`
	Step   int               `json:"step"`
}

func (v Violation) Sig() string {
	keys := make([]string, 0, len(v.Detail))
	for k := range v.Detail {
		keys = append(keys, k)
	}
	sort.Strings(keys)
	s := v.Prop + "/" + v.Kind
	for _, k := range keys {
		s += "," + k + "=" + v.Detail[k]
	}
	return s
}

type Driver struct {
	K        *Kernel
	C        *Cluster
	P        *Plan
	T        *Tape
	Clients  []*ClientState
	Step     int
	Start    time.Time
	WorkStart time.Time
	Counters map[string]int
	Viol     []Violation
	Progress *int64
	phase    string
	States   map[string]bool
	auxDials int64
	events   []*Event
	Trace    []string
	keepTrace bool
	PollNo   int
	parked   *parkedYield
	parkEnabled bool
	HoldData bool
	SettleExhausted bool
	lastPoll time.Time
	Hold     map[int]bool // clients the profile's own run loop has not released yet
	Round    int
	hseq     int
	wl       interface{}
}

func (d *Driver) count(k string) { d.Counters[k]++ }

func (d *Driver) violate(prop, kind string, detail map[string]string, format string, a ...interface{}) {
	d.Viol = append(d.Viol, Violation{Prop: prop, Kind: kind, Detail: detail, Msg: fmt.Sprintf(format, a...), Step: d.Step})
}

func (d *Driver) trace(format string, a ...interface{}) {
	atomic.AddInt64(d.Progress, 1)
	s := fmt.Sprintf(format, a...)
	d.K.Note("drv %s", s)
	if d.keepTrace {
		d.Trace = append(d.Trace, fmt.Sprintf("[%d %s %v] %s", d.Step, d.phase, time.Since(d.Start).Round(time.Microsecond), s))
	}
}

// wait until every other goroutine in the bubble is durably blocked and the event loop is parked in epoll_wait
func (d *Driver) quiesce() {
	synctest.Wait()
	for i := 0; !d.K.Parked(); i++ {
		// the event loop is blocked on something else (a simulated connect timeout): let fake time pass
		time.Sleep(time.Millisecond)
		synctest.Wait()
		if i > 200000 {
			panic("sim: event loop never returned to epoll_wait")
		}
	}
}

func (d *Driver) sleep(dur time.Duration) {
	time.Sleep(dur)
	d.quiesce()
}

// Poll grants the event loop one epoll_wait (after the 200 ms timeout if nothing is ready).
func (d *Driver) Poll() { d.poll(true) }

// pollElapsed grants a poll without advancing the clock first: the caller has already let the epoll timeout elapse.
func (d *Driver) pollElapsed() { d.poll(false) }

func (d *Driver) poll(wait bool) {
	d.serviceYield()
	runtime.VerifSetRand(true, d.T.rngNextForMap())
	if wait && !d.K.AnyReady() {
		time.Sleep(200 * time.Millisecond)
		d.quiesce()
	}
	d.PollNo++
	d.K.Grant()
	d.quiesce()
	d.afterPoll()
}

func (d *Driver) afterPoll() {
	for _, c := range d.Clients {
		if c.Sock != nil && c.Sock.Closed() && !c.ProxyClosed {
			// the client learns about the close only after draining what was written before it
			if c.Sock.OutLen() == 0 {
				c.ProxyClosed = true
			}
		}
	}
	for _, bc := range d.C.Conns() {
		if bc.Sock.Closed() && !bc.Dead {
			d.feedAll(bc)
			bc.Dead = true
			for _, r := range bc.Pending {
				r.Dropped = true
			}
		}
	}
}

// ---- hooks ----

func (d *Driver) installHooks() {
	unix.VerifSim = d.K
	net.VerifDialTimeoutHook = func(network, address string, timeout time.Duration) (net.Conn, error, bool) {
		n := d.C.Nodes[address]
		if n == nil || !n.Up {
			d.K.Stats.DialRefused++
			d.K.Note("dial %s refused", address)
			d.count("dial_refused")
			if n != nil && n.AuxMode == "blackhole" {
				time.Sleep(timeout)
				return nil, &net.OpError{Op: "dial", Net: "tcp", Err: timeoutErr{}}, true
			}
			return nil, &net.OpError{Op: "dial", Net: "tcp", Err: os.NewSyscallError("connect", syscall.ECONNREFUSED)}, true
		}
		f, err := os.Open("/dev/null")
		if err != nil {
			panic("sim: cannot open /dev/null: " + err.Error())
		}
		pfd, err := unix.FcntlInt(f.Fd(), unix.F_DUPFD_CLOEXEC, 0)
		f.Close()
		if err != nil {
			panic("sim: dupfd: " + err.Error())
		}
		host, _, _ := net.SplitHostPort(address)
		ra := &net.TCPAddr{IP: net.ParseIP(host), Port: 7000}
		la := &net.TCPAddr{IP: net.ParseIP("10.9.9.9"), Port: 40000 + d.K.nextID%20000}
		s := d.K.NewBackendPlaceholder(pfd, address, la, ra)
		d.C.Accept(s, address)
		d.count("dials")
		return net.VerifNewTCPConn(pfd, la, ra), nil, true
	}
	net.VerifDialContextHook = func(ctx context.Context, network, address string, timeout time.Duration) (net.Conn, error, bool) {
		n := d.C.Nodes[address]
		// NB: this hook runs on helper goroutines (pool monitors, refresh goroutine) whose relative order is the Go
		// scheduler's choice: it must not touch the event log or any shared mutable state.
		if n == nil || !n.Up || n.AuxMode == "refuse" {
			return nil, &net.OpError{Op: "dial", Net: "tcp", Err: os.NewSyscallError("connect", syscall.ECONNREFUSED)}, true
		}
		ac := newAuxConn(address, func(c *AuxConn) {
			node := d.C.Nodes[c.node]
			for {
				c.mu.Lock()
				args, m, st, _ := ParseRedisQuery(c.wbuf)
				if st != QOk {
					c.mu.Unlock()
					return
				}
				cp := make([][]byte, len(args))
				for i, a := range args {
					cp[i] = append([]byte(nil), a...)
				}
				c.wbuf = c.wbuf[m:]
				c.mu.Unlock()
				if node.AuxMode == "stall" || !node.Up {
					continue
				}
				c.push(d.C.AuxExec(c.node, cp, &c.authed))
			}
		})
		atomic.AddInt64(&d.auxDials, 1)
		return ac, nil, true
	}
}

// ---- boot ----

func (d *Driver) boot() {
	p := d.P
	core.MaxStreamBufferCap = p.Proxy.BufCap
	rand.Seed(int64(p.Seed*2654435761 + 12345))
	var seeds []string
	for _, n := range p.Topos[0].Nodes {
		if n.Master || p.Proxy.SeedAll {
			seeds = append(seeds, n.Addr)
		}
	}
	if p.Proxy.SeedAll {
		// replicas first, so that the very first probes and pools are theirs
		sort.SliceStable(seeds, func(a, b int) bool { return !p.Topos[0].ByAddr(seeds[a]).Master && p.Topos[0].ByAddr(seeds[b]).Master })
	}
	if p.Proxy.SeedServers > 0 && p.Proxy.SeedServers < len(seeds) {
		seeds = seeds[:p.Proxy.SeedServers]
	}
	ls := server.NewListenServer(
		server.WithRedisPassword(p.Proxy.Password),
		server.WithServerRetryTimeout(p.Proxy.RetryMs),
		server.WithDisableRedisSlave(p.Proxy.DisableSlave),
	)
	go func() {
		err := core.Run(ls, "tcp://:9736",
			core.WithRedisPasswd(p.Proxy.Password),
			core.WithRedisServers(strings.Join(seeds, ",")),
			core.WithRedisPreconnect(p.Proxy.Preconnect),
			core.WithRedisConnectTimeout(p.Proxy.ConnTimeoutMs),
			core.WithRedisRequestTimeout(p.Proxy.TimeoutMs),
			core.WithRedisServerConnections(p.Proxy.ServerConns),
			core.WithRedisMsgMaxLength(p.Proxy.MsgMax),
			core.WithSlowlogSlowerThan(0),
		)
		d.K.Note("core.Run returned: %v", err)
		d.count("proxy_run_returned")
	}()
	d.quiesce()
}

// pumpBackends: every backend consumes what was written and releases every eligible reply (fair, no faults).
func (d *Driver) pumpBackends() bool {
	changed := false
	for _, bc := range d.C.Conns() {
		if bc.Dead {
			continue
		}
		if d.feedAll(bc) {
			changed = true
		}
		if d.releaseAll(bc) {
			changed = true
		}
	}
	return changed
}

func (d *Driver) feedAll(bc *BConn) bool {
	if bc.Sock.OutLen() == 0 || bc.Node.Hung {
		return false
	}
	b := d.K.TakeOut(bc.Sock, 0)
	before := len(bc.Cmds)
	d.C.Feed(bc, b, d.K.Seq())
	for _, r := range bc.Cmds[before:] {
		if r.HoldFor > 0 {
			r.ReadyAt = time.Now().Add(r.HoldFor)
		}
		r.At = time.Since(d.Start)
		d.trace("node %s conn#%d exec %s %v -> %q", bc.Node.Addr, bc.ID, r.Name, r.Tokens, clip(r.Reply, 60))
	}
	return true
}

func clip(b []byte, n int) []byte {
	if len(b) > n {
		return b[:n]
	}
	return b
}

func (d *Driver) releasable(bc *BConn) int {
	// number of bytes of queued replies that may be released now (FIFO: stops at the first held reply)
	if bc.Dead || bc.Stalled || bc.Sock.Closed() || bc.Node.Hung {
		return 0
	}
	n := 0
	now := time.Now()
	for i, r := range bc.Pending {
		if r.HoldFor < 0 {
			break
		}
		if d.HoldData && r.Kind == "data" {
			break // the profile's own run loop releases data replies explicitly (enumerated arrival orders)
		}
		if r.HoldFor > 0 && now.Before(r.ReadyAt) {
			break
		}
		off := 0
		if i == 0 {
			off = bc.relOff
		}
		if r.TrickleFor > 0 && r.TrickleCut < len(r.Reply) {
			if off < r.TrickleCut {
				n += r.TrickleCut - off // the prefix leaves now, nothing after it
				break
			}
			if r.TrickleUntil.IsZero() {
				r.TrickleUntil = now.Add(r.TrickleFor)
			}
			if now.Before(r.TrickleUntil) {
				break
			}
		}
		n += len(r.Reply) - off
	}
	return n
}

func (d *Driver) release(bc *BConn, n int) {
	for n > 0 && len(bc.Pending) > 0 {
		r := bc.Pending[0]
		rest := r.Reply[bc.relOff:]
		m := len(rest)
		if m > n {
			m = n
		}
		d.K.Deliver(bc.Sock, rest[:m])
		bc.relOff += m
		n -= m
		if bc.relOff == len(r.Reply) {
			r.Released = true
			r.RelSeq = d.K.Seq()
			r.RelRound = d.Round
			r.RelAt = time.Since(d.Start)
			bc.Pending = bc.Pending[1:]
			bc.relOff = 0
			if bc.prevLens = append(bc.prevLens, len(r.Reply)); len(bc.prevLens) > 4 {
				bc.prevLens = bc.prevLens[1:]
			}
			if r.Kind == "protoerr" {
				d.K.PeerFin(bc.Sock)
			}
		}
	}
}

// alignedAmount picks how many of the max releasable bytes leave now: a piece that ends on a reply boundary, or that carries
// exactly as many bytes of the next reply as an earlier reply on this connection was long (tape choice 0 = everything).
func (d *Driver) alignedAmount(bc *BConn, max int) int {
	if max <= 1 || len(bc.Pending) == 0 {
		return max
	}
	rem0 := len(bc.Pending[0].Reply) - bc.relOff
	cands := []int{max}
	add := func(n int) {
		if n >= 1 && n <= max {
			cands = append(cands, n)
		}
	}
	add(rem0)
	for _, l := range bc.prevLens {
		if bc.relOff == 0 {
			add(l) // the first piece of this reply is as long as an earlier reply
		}
		if len(bc.Pending) > 1 {
			add(rem0 + l) // the rest of this reply plus a prefix of the next one as long as an earlier reply
		}
	}
	add(rem0 - 1)
	add(rem0 + 1)
	return cands[d.T.Choose(len(cands))]
}

func (d *Driver) releaseAll(bc *BConn) bool {
	n := d.releasable(bc)
	if n == 0 {
		return false
	}
	d.release(bc, n)
	return true
}

func (d *Driver) slotsLoaded() bool {
	t := &d.P.Topos[0]
	for _, n := range t.Nodes {
		if !n.Master || !usableDesc(&n) {
			continue
		}
		for _, r := range n.Slots {
			if core.EngineGlobal.Slots2Node.NotExist(int32(r[0])) || core.EngineGlobal.Slots2Node.NotExist(int32(r[1])) {
				return false
			}
		}
	}
	return true
}

func usableDesc(n *NodeDesc) bool {
	for _, f := range n.Flags {
		if f == "fail" || f == "fail?" || f == "handshake" || f == "noaddr" {
			return false
		}
	}
	return n.Link == "" || n.Link == "connected"
}

// converge: fair scheduling until the proxy has adopted the initial topology (convergence itself is C14's business).
func (d *Driver) converge(maxFake time.Duration) bool {
	d.phase = "converge"
	t0 := time.Now()
	for time.Since(t0) < maxFake {
		d.pumpBackends()
		d.Poll()
		if core.EngineGlobal != nil && d.slotsLoaded() {
			// let the pools of newly adopted nodes settle for one more ticker round
			for i := 0; i < 3; i++ {
				d.pumpBackends()
				d.Poll()
			}
			return true
		}
	}
	return false
}

// ---- clients ----

func (d *Driver) newClient(i int, cp *ClientPlan) *ClientState {
	c := &ClientState{Idx: i, Plan: cp}
	for _, r := range cp.Reqs {
		c.stream = append(c.stream, r.Raw...)
		c.bounds = append(c.bounds, len(c.stream))
	}
	c.SentSeq = make([]uint64, len(cp.Reqs))
	c.SentAt = make([]time.Duration, len(cp.Reqs))
	c.SentH = make([]int, len(cp.Reqs))
	return c
}

func (d *Driver) connect(c *ClientState) {
	host, port, _ := net.SplitHostPort(c.Plan.Addr)
	pn := 0
	fmt.Sscanf(port, "%d", &pn)
	c.Sock = d.K.NewClientConn(fmt.Sprintf("c%d", c.Idx), &net.TCPAddr{IP: net.ParseIP(host), Port: pn})
	if c.Plan.Slow || c.Plan.NeverRead || c.Plan.ReadAfterMs > 0 {
		c.Sock.sndCap = d.K.Cfg.ClientSndCap
	}
	c.Connected = true
	c.connectedAt = time.Now()
	d.trace("client %d connects from %s", c.Idx, c.Plan.Addr)
}

// allowed returns how many bytes of the stream the client may have sent by now according to its discipline.
func (d *Driver) allowed(c *ClientState) int {
	if k := c.Plan.TailAfterAnswered; k > 0 && k < len(c.bounds) {
		head := len(c.bounds) - k
		answered := 0
		prefix := fmt.Sprintf("c%dr", c.Idx)
		for _, r := range d.C.Log {
			if r.Kind == "data" && r.Released && len(r.Tokens) > 0 && strings.HasPrefix(r.Tokens[0], prefix) {
				answered++
			}
		}
		if answered < head {
			return c.bounds[head-1]
		}
	}
	switch c.Plan.Mode {
	case "closed":
		i := len(c.Replies)
		if c.Plan.Window > 1 {
			i += c.Plan.Window - 1
		}
		if i >= len(c.bounds) {
			return len(c.stream)
		}
		return c.bounds[i]
	case "open":
		gap := time.Duration(c.Plan.GapMs) * time.Millisecond
		n := int(time.Since(c.connectedAt)/gap) + 1
		if gap <= 0 || n >= len(c.bounds) {
			return len(c.stream)
		}
		return c.bounds[n-1]
	}
	return len(c.stream)
}

func (d *Driver) sendable(c *ClientState) int {
	if !c.Connected || c.SelfClosed || c.ProxyClosed || c.Sock.Closed() {
		return 0
	}
	if c.Plan.SendAfterAccepts > 0 && d.K.Stats.Accepts < c.Plan.SendAfterAccepts {
		return 0
	}
	lim := d.allowed(c)
	if c.Plan.CloseAfterSent >= 0 && lim > c.Plan.CloseAfterSent {
		lim = c.Plan.CloseAfterSent
	}
	if lim <= c.sent {
		return 0
	}
	return lim - c.sent
}

func (d *Driver) send(c *ClientState, n int) {
	b := c.stream[c.sent : c.sent+n]
	if c.sent == 0 {
		c.CleanStart = true
		for _, bc := range d.C.Conns() {
			if bc.Dead && !bc.Sock.Closed() {
				c.CleanStart = false
			}
		}
	}
	d.K.Deliver(c.Sock, b)
	old := c.sent
	c.sent += n
	d.hseq++
	for i, e := range c.bounds {
		if old < e && c.sent >= e {
			c.SentH[i] = d.hseq
			c.SentSeq[i] = d.K.Seq()
			c.SentAt[i] = time.Since(d.Start)
		}
	}
	d.trace("client %d sends %d bytes (%d/%d)", c.Idx, n, c.sent, len(c.stream))
	d.maybeSelfClose(c)
}

func (d *Driver) maybeSelfClose(c *ClientState) {
	if c.SelfClosed || !c.Connected {
		return
	}
	cp := c.Plan
	if (cp.CloseAfterSent >= 0 && c.sent >= cp.CloseAfterSent && cp.CloseAfterReplies < 0) ||
		(cp.CloseAfterReplies >= 0 && len(c.Replies) >= cp.CloseAfterReplies && (cp.CloseAfterSent < 0 || c.sent >= cp.CloseAfterSent)) {
		c.SelfClosed = true
		if cp.CloseRst {
			d.K.PeerRst(c.Sock, d.T.Pct(50))
		} else {
			d.K.PeerFin(c.Sock)
		}
		d.count("client_self_close")
		d.trace("client %d closes (rst=%v) after %d bytes sent, %d replies", c.Idx, cp.CloseRst, c.sent, len(c.Replies))
	}
}

func (d *Driver) recvable(c *ClientState) int {
	if c.Sock == nil || c.Plan.NeverRead || c.SelfClosed {
		return 0
	}
	if c.Plan.ReadAfterMs > 0 && time.Since(c.connectedAt) < time.Duration(c.Plan.ReadAfterMs)*time.Millisecond {
		return 0
	}
	return c.Sock.OutLen()
}

func (d *Driver) recv(c *ClientState, n int) {
	b := d.K.TakeOut(c.Sock, n)
	c.recv = append(c.recv, b...)
	d.hseq++
	for !c.Malformed {
		r, m, st := ParseReply(c.recv)
		if st == RIncomplete {
			break
		}
		if st == RMalformed {
			c.Malformed = true
			d.trace("client %d received malformed reply bytes %q", c.Idx, clip(c.recv, 80))
			break
		}
		c.Replies = append(c.Replies, append([]byte(nil), r.Raw...))
		c.ReplySeq = append(c.ReplySeq, d.K.Seq())
		c.ReplyStep = append(c.ReplyStep, d.PollNo)
		c.ReplyRound = append(c.ReplyRound, d.Round)
		c.ReplyAt = append(c.ReplyAt, time.Since(d.Start))
		c.ReplyH = append(c.ReplyH, d.hseq)
		c.recv = c.recv[m:]
		d.trace("client %d got reply #%d %q", c.Idx, len(c.Replies)-1, clip(r.Raw, 60))
	}
	if c.Sock.Closed() && c.Sock.OutLen() == 0 {
		c.ProxyClosed = true
	}
	d.maybeSelfClose(c)
}

func (d *Driver) clientFinished(c *ClientState) bool {
	if !c.Connected {
		return false
	}
	if c.ProxyClosed || (c.Sock.Closed() && c.Sock.OutLen() == 0) {
		return true
	}
	if c.SelfClosed {
		return true
	}
	if c.Plan.Hostile && c.sent == len(c.stream) {
		return true
	}
	return c.sent == len(c.stream) && len(c.Replies) >= len(c.Plan.Reqs) && c.Sock.OutLen() == 0
}

func (d *Driver) startable(c *ClientState) bool {
	if c.Connected || d.Hold[c.Idx] {
		return false
	}
	if c.Plan.StartAfterMs > 0 {
		return !d.WorkStart.IsZero() && time.Since(d.WorkStart) >= time.Duration(c.Plan.StartAfterMs)*time.Millisecond
	}
	if c.Plan.StartAfterEvents {
		for _, e := range d.events {
			if !e.Fired {
				return false
			}
		}
		return true
	}
	if c.Plan.StartAfterClient > 0 {
		o := d.Clients[c.Plan.StartAfterClient-1]
		return d.clientFinished(o)
	}
	return d.Step >= c.Plan.StartStep
}

func (d *Driver) allDone() bool {
	for _, c := range d.Clients {
		if !d.clientFinished(c) {
			return false
		}
	}
	for _, e := range d.events {
		if !e.Fired && e.When.Step == 0 && e.When.Token == "" && e.When.AfterMs == 0 && e.When.Replies == 0 {
			continue
		}
	}
	return true
}

// ---- events (faults placed by the plan) ----

func (d *Driver) findRec(token string) (*BConn, *CmdRec) {
	var bcF *BConn
	var rF *CmdRec
	for _, bc := range d.C.Conns() {
		for _, r := range bc.Cmds {
			for _, t := range r.Tokens {
				if strings.HasPrefix(t, token+"k") {
					bcF, rF = bc, r
				}
			}
		}
	}
	return bcF, rF
}

func (d *Driver) connHoldingToken(token string) *BConn {
	// a connection whose unconsumed written bytes contain the token
	for _, bc := range d.C.Conns() {
		if bc.Dead {
			continue
		}
		if strings.Contains(string(bc.Sock.out), token+"k") {
			return bc
		}
	}
	return nil
}

func (d *Driver) fireEvents() {
	for _, e := range d.events {
		if e.Fired {
			continue
		}
		w := e.When
		var target *BConn
		ok := false
		switch {
		case w.Token != "":
			switch w.Phase {
			case "sent":
				// the client has handed the request's last byte to the proxy's socket (the proxy may not have polled it yet);
				// the target is the connection to the master owning the request's first key
				ci, ri := reqIndexOfToken(w.Token)
				if ci < len(d.Clients) && ri < len(d.Clients[ci].bounds) && d.Clients[ci].Connected && d.Clients[ci].sent >= d.Clients[ci].bounds[ri] {
					ok = true
					if ks := d.Clients[ci].Plan.Reqs[ri].Keys; len(ks) > 0 {
						if o := d.C.Truth.Owner(RefSlot([]byte(ks[0]))); o != nil {
							for _, bc := range d.C.Conns() {
								if !bc.Dead && bc.Node.Addr == o.Addr {
									target = bc
								}
							}
						}
					}
				}
			case "written":
				if bc := d.connHoldingToken(w.Token); bc != nil {
					ok, target = true, bc
				}
			case "consumed":
				if bc, r := d.findRec(w.Token); r != nil && !r.Released && bc.relOff == 0 {
					ok, target = true, bc
				} else if r != nil {
					// too late for this phase; fire anyway so the run stays meaningful
					ok, target = true, bc
				}
			case "partial":
				if bc, r := d.findRec(w.Token); r != nil && len(bc.Pending) > 0 && bc.Pending[0] == r && bc.relOff > 0 {
					ok, target = true, bc
				} else if r != nil && r.Released {
					ok, target = true, bc
				}
			case "replied":
				if bc, r := d.findRec(w.Token); r != nil && r.Released {
					ok, target = true, bc
				}
			}
		case w.Replies > 0:
			if w.Client < len(d.Clients) && len(d.Clients[w.Client].Replies) >= w.Replies {
				ok = true
			}
		case w.AfterMs > 0:
			ok = !d.WorkStart.IsZero() && time.Since(d.WorkStart) >= time.Duration(w.AfterMs)*time.Millisecond
		default:
			ok = d.Step >= w.Step
		}
		if !ok {
			continue
		}
		if e.Node != "" && w.Token != "" && e.Kind == "kill-conn" {
			target = nil // the token only times the event; the victim is the connection to the named node
		}
		e.Fired = true
		d.applyEvent(e, target)
	}
}

func (d *Driver) applyEvent(e *Event, target *BConn) {
	d.count("ev_" + e.Kind)
	switch e.Kind {
	case "kill-conn":
		if target == nil {
			for _, bc := range d.C.Conns() {
				if !bc.Dead && bc.Node.Addr == e.Node {
					target = bc
				}
			}
		}
		if target != nil && !target.Dead {
			d.killConn(target, e.Rst)
		}
	case "rst-at-write":
		if target == nil {
			for _, bc := range d.C.Conns() {
				if !bc.Dead && bc.Node.Addr == e.Node {
					target = bc
				}
			}
		}
		if target != nil && !target.Dead && !target.Sock.Closed() {
			d.K.ArmRstAtWrite(target.Sock)
			d.count("rst_at_write_armed")
			d.trace("backend conn#%d to %s: peer reset will meet the next write", target.ID, target.Node.Addr)
		}
	case "node-down":
		n := d.C.Nodes[e.Node]
		if n != nil {
			n.Up = false
			for _, bc := range n.Conns {
				if !bc.Dead {
					d.killConn(bc, true)
				}
			}
			d.trace("node %s down", e.Node)
		}
	case "node-up":
		if n := d.C.Nodes[e.Node]; n != nil {
			n.Up = true
			d.trace("node %s up", e.Node)
		}
	case "stall-conn":
		if target != nil {
			target.Stalled = true
		}
	case "set-topo":
		d.C.Truth = &d.P.Topos[e.Topo]
		d.C.EnsureNodes(d.C.Truth)
		d.trace("cluster truth := topology %d", e.Topo)
	case "set-view":
		if n := d.C.Nodes[e.Node]; n != nil {
			if e.Topo < 0 {
				n.View = nil
			} else {
				n.View = &d.P.Topos[e.Topo]
			}
		}
	case "probe-script":
		for _, a := range d.C.NodeAddrs() {
			if e.Node == "" || e.Node == a {
				d.C.Nodes[a].ProbeScript = append(d.C.Nodes[a].ProbeScript, e.Data...)
			}
		}
	case "migrate":
		// slot e.Slot is being migrated from its owner to e.To; keys listed in Data have already moved
		owner := d.C.Truth.Owner(e.Slot)
		if owner != nil {
			src, dst := d.C.Nodes[owner.Addr], d.C.Nodes[e.To]
			src.Migrating[e.Slot] = e.To
			dst.Importing[e.Slot] = owner.Addr
			for _, k := range e.Data {
				if v, ok := src.Store[k]; ok {
					dst.Store[k] = v
					delete(src.Store, k)
				}
			}
			d.trace("slot %d migrating %s -> %s", e.Slot, owner.Addr, e.To)
		}
	case "hang-node":
		if n := d.C.Nodes[e.Node]; n != nil {
			n.Hung = true
			n.AuxMode = "stall"
			d.trace("node %s hangs (stops reading and answering)", e.Node)
		}
	case "aux-mode":
		if n := d.C.Nodes[e.Node]; n != nil {
			n.AuxMode = e.To
		}
	}
}

func (d *Driver) killConn(bc *BConn, rst bool) {
	// whatever the proxy wrote but the node never read is lost with the connection
	d.feedAll(bc)
	bc.Dead = true
	for _, r := range bc.Pending {
		r.Dropped = true
	}
	if rst {
		d.K.PeerRst(bc.Sock, d.T.Pct(50))
	} else {
		d.K.PeerFin(bc.Sock)
	}
	d.count("backend_conn_killed")
	d.trace("backend conn#%d to %s killed (rst=%v), %d replies dropped", bc.ID, bc.Node.Addr, rst, len(bc.Pending))
}

// ---- workload phase: weighted random choice among enabled actions ----

type action struct {
	kind string
	c    *ClientState
	bc   *BConn
	w    int
}

func (d *Driver) enabled() []action {
	s := d.P.Sched
	var acts []action
	for _, c := range d.Clients {
		if d.startable(c) {
			acts = append(acts, action{kind: "connect", c: c, w: s.WSend})
		}
		if d.sendable(c) > 0 {
			acts = append(acts, action{kind: "send", c: c, w: s.WSend})
		}
		if d.recvable(c) > 0 {
			w := s.WRecv
			if c.Plan.Slow {
				w = 1
			}
			acts = append(acts, action{kind: "recv", c: c, w: w})
		}
	}
	for _, bc := range d.C.Conns() {
		if bc.Dead {
			continue
		}
		if bc.Sock.OutLen() > 0 && !bc.Node.Hung {
			acts = append(acts, action{kind: "consume", bc: bc, w: s.WConsume})
		}
		if d.releasable(bc) > 0 {
			acts = append(acts, action{kind: "release", bc: bc, w: s.WRelease})
		}
	}
	acts = append(acts, action{kind: "poll", w: s.WPoll})
	if s.WTime > 0 {
		acts = append(acts, action{kind: "time", w: s.WTime})
	}
	return acts
}

func (d *Driver) amount(n int) int {
	if n > 1 && d.T.Pct(d.P.Sched.ChunkPct) {
		return n - d.T.Choose(n)
	}
	return n
}

func (d *Driver) workload() {
	d.phase = "work"
	d.WorkStart = time.Now()
	s := d.P.Sched
	for d.Step = 1; d.Step <= s.MaxSteps; d.Step++ {
		d.fireEvents()
		if d.allDone() {
			break
		}
		acts := d.enabled()
		total := 0
		for _, a := range acts {
			total += a.w
		}
		pick := d.T.Choose(total)
		var a action
		for _, x := range acts {
			if pick < x.w {
				a = x
				break
			}
			pick -= x.w
		}
		d.exec(a)
		d.observe()
	}
}

func (d *Driver) exec(a action) {
	switch a.kind {
	case "connect":
		d.connect(a.c)
	case "send":
		n := d.sendable(a.c)
		if len(a.c.Plan.Chunks) > 0 {
			if a.c.chunkIdx < len(a.c.Plan.Chunks) {
				if k := a.c.Plan.Chunks[a.c.chunkIdx]; k < n {
					n = k
				}
				a.c.chunkIdx++
			}
		} else {
			n = d.amount(n)
		}
		d.send(a.c, n)
		if a.c.Plan.PollAfterSend {
			d.Poll()
		}
	case "recv":
		n := d.recvable(a.c)
		if a.c.Plan.Slow {
			n = 1 + d.T.Choose(min(n, 16))
		} else {
			n = d.amount(n)
		}
		d.recv(a.c, n)
	case "consume":
		d.feedAll(a.bc)
	case "release":
		n := d.amount(d.releasable(a.bc))
		if d.P.Sched.AlignedRelease {
			n = d.alignedAmount(a.bc, d.releasable(a.bc))
		}
		d.release(a.bc, n)
		d.trace("node %s conn#%d releases %d reply bytes", a.bc.Node.Addr, a.bc.ID, n)
		if d.P.Sched.AlignedRelease {
			d.Poll()
		}
	case "poll":
		d.Poll()
	case "time":
		durs := []time.Duration{time.Millisecond, 10 * time.Millisecond, 50 * time.Millisecond, 200 * time.Millisecond, time.Second}
		dur := durs[d.T.Choose(len(durs))]
		d.trace("time +%v", dur)
		d.sleep(dur)
		d.count("proxy_stalls")
	}
}

// observe: cheap step invariants and abstract-state sampling
func (d *Driver) observe() {
	pend := 0
	for _, bc := range d.C.Conns() {
		pend += len(bc.Pending)
	}
	out := 0
	for _, c := range d.Clients {
		if c.Sock != nil {
			out += c.Sock.OutLen()
		}
		if len(c.Replies) > c.reqsSent() && !c.Malformed && !c.Plan.Hostile {
			// more replies than requests fully sent
			if d.Counters["viol_more_replies"] == 0 {
				d.count("viol_more_replies")
				d.violate(d.P.Prop, "more-replies-than-requests", map[string]string{}, "client %d has %d replies but only %d requests fully sent", c.Idx, len(c.Replies), c.reqsSent())
			}
		}
	}
	d.States[fmt.Sprintf("%d/%d/%d", bucket(pend), bucket(out), len(d.C.Conns()))] = true
}

// settle: faults off, fair round-robin until nothing changes (and long enough for timeouts to fire when something is outstanding)
func (d *Driver) settle() {
	d.phase = "settle"
	d.fireEvents()
	for _, e := range d.events {
		if !e.Fired {
			// its trigger never came true in the workload phase (e.g. the request was rejected): no faults in the settle phase
			e.Fired = true
			d.count("ev_skipped")
		}
	}
	t0 := time.Now()
	maxFake := time.Duration(d.P.Sched.SettleS) * time.Second
	quiet := 0
	for iter := 0; time.Since(t0) < maxFake+time.Second; iter++ {
		if iter > 400000 {
			d.SettleExhausted = true // bytes were still moving: the run proves nothing, it is not a violation
			return
		}
		d.Step++
		d.fireEvents()
		changed := false
		for _, c := range d.Clients {
			if d.startable(c) {
				d.connect(c)
				changed = true
			}
			if n := d.sendable(c); n > 0 {
				if len(c.Plan.Chunks) > 0 && c.chunkIdx < len(c.Plan.Chunks) {
					if k := c.Plan.Chunks[c.chunkIdx]; k < n {
						n = k
					}
					c.chunkIdx++
				}
				d.send(c, n)
				changed = true
			}
		}
		if d.pumpBackends() {
			changed = true
		}
		ready := d.K.AnyReady()
		d.Poll()
		for _, c := range d.Clients {
			if n := d.recvable(c); n > 0 {
				d.recv(c, n)
				changed = true
			}
		}
		if changed || ready {
			quiet = 0
		} else {
			quiet++
		}
		d.observe()
		if quiet >= 3 && d.allDone() && d.nothingHeld() {
			return
		}
		if quiet >= 3 && time.Since(t0) >= maxFake {
			return
		}
	}
}

func (d *Driver) nothingHeld() bool {
	for _, bc := range d.C.Conns() {
		if bc.Dead {
			continue
		}
		for _, r := range bc.Pending {
			if r.HoldFor > 0 {
				return false
			}
		}
	}
	return true
}

// fairRun: strictly fair, fault-free scheduling in rounds of 1 fake ms (liveness profiles).
func (d *Driver) fairRun(maxRounds int, done func() bool) { d.fairRunTick(maxRounds, done, time.Millisecond) }

// fairRunTick is fairRun with a configurable round length.
func (d *Driver) fairRunTick(maxRounds int, done func() bool, tick time.Duration) {
	d.phase = "fair"
	d.WorkStart = time.Now()
	if d.lastPoll.IsZero() {
		d.lastPoll = time.Now()
	}
	for n := 0; n < maxRounds; n++ {
		d.Round++
		d.Step++
		d.fireEvents()
		for _, c := range d.Clients {
			if d.startable(c) {
				d.connect(c)
			}
			if n := d.sendable(c); n > 0 {
				d.send(c, n)
			}
		}
		if d.K.AnyReady() {
			d.Poll()
			d.lastPoll = time.Now()
		} else if time.Since(d.lastPoll) >= 200*time.Millisecond {
			d.pollElapsed() // the 200 ms epoll timeout has passed in fair rounds already
			d.lastPoll = time.Now()
		}
		d.pumpBackends()
		// the proxy may need several polls to drain its task queue (eventfd wake-ups)
		for i := 0; i < 3 && d.K.AnyReady(); i++ {
			d.Poll()
			d.lastPoll = time.Now()
		}
		for _, c := range d.Clients {
			if n := d.recvable(c); n > 0 {
				d.recv(c, n)
			}
		}
		d.observe()
		if done != nil && done() {
			return
		}
		d.sleep(tick)
	}
}
