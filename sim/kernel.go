package simrun

// Simulated kernel: non-blocking stream sockets, a listener, one epoll instance and one eventfd, with Linux
// semantics for exactly the calls rcproxy makes (see DESIGN.md 3.2).  It is installed as unix.VerifSim, so the
// unmodified proxy code (event loop, netpoll.Polling, Dial, accept, read/write paths) runs against it.

import (
	"crypto/sha256"
	"encoding/binary"
	"fmt"
	"hash"
	"net"
	"runtime"
	"sort"
	"sync"

	"golang.org/x/sys/unix"
)

const fdBase = 1 << 20

// Linux never lets SO_SNDBUF drop below about 4.5 KiB (SOCK_MIN_SNDBUF).
const minSndBuf = 4608

type sockKind int

const (
	kListener sockKind = iota
	kStream
	kEpoll
	kEventfd
)

type Sock struct {
	fd   int
	kind sockKind
	id   int // unique, never reused (fd numbers are)

	Role  string // "client" | "backend"
	Label string // client index / node address

	in      []byte // bytes the proxy may read
	out     []byte // bytes the proxy wrote, not yet consumed by the peer
	sndCap  int
	peerFin bool
	peerRst bool
	rstAtWrite bool // a peer reset becomes visible with the next write (arrives between two polls)
	closed  bool // closed by the proxy
	// what the peer observed when the proxy closed
	closedWithUnread bool

	laddr, raddr *net.TCPAddr
	domain       int
	opts         map[[2]int]int

	backlog []*Sock

	interest map[int]uint32
	counter  uint64

	TotalRead    int // bytes the proxy read from this socket
	TotalWritten int // bytes the proxy wrote
	// sequence numbers (kernel event seq) of interesting moments
	firstWriteSeq uint64
	closeSeq      uint64

	noShort bool // profile asked for no short reads/writes on this socket
}

func (s *Sock) Closed() bool   { return s.closed }
func (s *Sock) OutLen() int    { return len(s.out) }
func (s *Sock) InLen() int     { return len(s.in) }
func (s *Sock) ID() int        { return s.id }
func (s *Sock) Fd() int        { return s.fd }
func (s *Sock) String() string { return fmt.Sprintf("%s:%s#%d", s.Role, s.Label, s.id) }

type KernelCfg struct {
	ShortReadPct  int
	ShortWritePct int
	ClientSndCap  int
	BackendSndCap int
}

type KStats struct {
	Reads, Writes, ShortReads, ShortWrites, EAGAINRead, EAGAINWrite int
	Polls, PollsMulti, PollTimeouts                                 int
	PollsTruncated, MaxReady                                        int // ready set larger than the caller's event list; largest ready set
	RstAtWrite                                                      int // writes that were the first call to meet a peer reset
	RstWithReadableData                                             int // resets that left already delivered bytes readable
	Accepts, Closes, Dials, DialRefused                             int
}

type Kernel struct {
	mu       sync.Mutex
	socks    map[int]*Sock
	nextID   int
	grant    chan struct{}
	parked   bool
	pending  map[int]*Sock // placeholder real fd -> simulated stream awaiting Dup
	seq      uint64
	h        hash.Hash
	lines    []string
	keepLog  bool
	tape     *Tape
	Cfg      KernelCfg
	Stats    KStats
	lfd      int
	epfd     int
	efd      int
	active   bool
	tickSet  bool
	pollHash hash.Hash // proxy-visible interleaving hash (ready lists + syscall result classes)

	allSocks []*Sock // every stream ever created, in creation order
}

func NewKernel(t *Tape, keepLog bool) *Kernel {
	return &Kernel{socks: map[int]*Sock{}, grant: make(chan struct{}), pending: map[int]*Sock{},
		h: sha256.New(), pollHash: sha256.New(), tape: t, keepLog: keepLog, active: true,
		Cfg: KernelCfg{ClientSndCap: 1 << 20, BackendSndCap: 1 << 20}}
}

func (k *Kernel) logf(format string, a ...interface{}) {
	k.seq++
	line := fmt.Sprintf("%d ", k.seq) + fmt.Sprintf(format, a...)
	k.h.Write([]byte(line))
	k.h.Write([]byte{'\n'})
	if k.keepLog {
		if len(line) > 300 {
			line = line[:300] + "..."
		}
		k.lines = append(k.lines, line)
	}
}

// Note lets the driver add its own actions to the event log (same sequence space).
func (k *Kernel) Note(format string, a ...interface{}) uint64 {
	k.mu.Lock()
	defer k.mu.Unlock()
	k.logf(format, a...)
	return k.seq
}

func (k *Kernel) Seq() uint64 { return k.seq }

func (k *Kernel) LogHash() string  { return fmt.Sprintf("%x", k.h.Sum(nil)) }
func (k *Kernel) PollHash() string { return fmt.Sprintf("%x", k.pollHash.Sum(nil)[:8]) }

func (k *Kernel) alloc(kd sockKind) *Sock {
	fd := fdBase
	for {
		if _, used := k.socks[fd]; !used {
			break
		}
		fd++
	}
	k.nextID++
	s := &Sock{fd: fd, kind: kd, id: k.nextID, opts: map[[2]int]int{}}
	k.socks[fd] = s
	if kd == kStream {
		k.allSocks = append(k.allSocks, s)
	}
	return s
}

// ---- unix.VerifSimKernel ----

func (k *Kernel) Active() bool      { return k.active }
func (k *Kernel) IsSim(fd int) bool { return fd >= fdBase }

func (k *Kernel) Socket(domain, typ, proto int) (int, error) {
	k.mu.Lock()
	defer k.mu.Unlock()
	s := k.alloc(kListener)
	s.domain = domain
	k.lfd = s.fd
	k.logf("socket dom=%d -> %d", domain, s.fd)
	return s.fd, nil
}

func (k *Kernel) SetsockoptInt(fd, level, opt, value int) error {
	k.mu.Lock()
	defer k.mu.Unlock()
	s, ok := k.socks[fd]
	if !ok {
		return unix.EBADF
	}
	s.opts[[2]int{level, opt}] = value
	k.logf("setsockopt fd=%d %d/%d=%d", fd, level, opt, value)
	return nil
}

func (k *Kernel) Bind(fd int, sa unix.Sockaddr) error { return nil }
func (k *Kernel) Connect(fd int, sa unix.Sockaddr) error {
	return unix.ECONNREFUSED
}
func (k *Kernel) Listen(fd, n int) error { return nil }

func (k *Kernel) Accept(fd int) (int, unix.Sockaddr, error) {
	k.mu.Lock()
	defer k.mu.Unlock()
	l, ok := k.socks[fd]
	if !ok || l.kind != kListener {
		return -1, nil, unix.EBADF
	}
	if len(l.backlog) == 0 {
		k.logf("accept EAGAIN")
		return -1, nil, unix.EAGAIN
	}
	s := l.backlog[0]
	l.backlog = l.backlog[1:]
	// the pending connection gets its descriptor now, lowest free first
	nfd := fdBase
	for {
		if _, used := k.socks[nfd]; !used {
			break
		}
		nfd++
	}
	s.fd = nfd
	k.socks[nfd] = s
	k.Stats.Accepts++
	var sa unix.Sockaddr
	ip4 := s.raddr.IP.To4()
	if l.domain == unix.AF_INET6 {
		a := &unix.SockaddrInet6{Port: s.raddr.Port}
		if ip4 != nil {
			a.Addr[10], a.Addr[11] = 0xff, 0xff
			copy(a.Addr[12:], ip4)
		} else {
			copy(a.Addr[:], s.raddr.IP.To16())
		}
		sa = a
	} else {
		a := &unix.SockaddrInet4{Port: s.raddr.Port}
		copy(a.Addr[:], ip4)
		sa = a
	}
	k.logf("accept -> fd=%d sock=%d from %s", nfd, s.id, s.raddr)
	return nfd, sa, nil
}

func (k *Kernel) SetNonblock(fd int, nb bool) error { return nil }

func (k *Kernel) Dup(fd int) (int, error, bool) {
	k.mu.Lock()
	defer k.mu.Unlock()
	if s, ok := k.pending[fd]; ok {
		delete(k.pending, fd)
		nfd := fdBase
		for {
			if _, used := k.socks[nfd]; !used {
				break
			}
			nfd++
		}
		s.fd = nfd
		k.socks[nfd] = s
		k.logf("dup -> fd=%d sock=%d %s", nfd, s.id, s.Label)
		return nfd, nil, true
	}
	return 0, nil, false
}

func (k *Kernel) Read(fd int, p []byte) (int, error) {
	k.mu.Lock()
	defer k.mu.Unlock()
	s, ok := k.socks[fd]
	if !ok {
		return -1, unix.EBADF
	}
	if s.kind == kEventfd {
		if s.counter == 0 {
			return -1, unix.EAGAIN
		}
		if len(p) >= 8 {
			binary.LittleEndian.PutUint64(p, s.counter)
		}
		s.counter = 0
		k.logf("read efd")
		return 8, nil
	}
	k.Stats.Reads++
	if len(s.in) == 0 {
		if s.peerRst {
			k.logf("read fd=%d sock=%d ECONNRESET", fd, s.id)
			k.pollHash.Write([]byte("rR"))
			return -1, unix.ECONNRESET
		}
		if s.peerFin {
			k.logf("read fd=%d sock=%d EOF", fd, s.id)
			k.pollHash.Write([]byte("rE"))
			return 0, nil
		}
		k.Stats.EAGAINRead++
		k.logf("read fd=%d sock=%d EAGAIN", fd, s.id)
		k.pollHash.Write([]byte("rA"))
		return -1, unix.EAGAIN
	}
	n := len(s.in)
	if n > len(p) {
		n = len(p)
	}
	if n > 1 && !s.noShort && k.tape.Pct(k.Cfg.ShortReadPct) {
		n = n - k.tape.Choose(n) // 1..n ; tape 0 = everything
		if n < len(s.in) && n < len(p) {
			k.Stats.ShortReads++
		}
	}
	copy(p, s.in[:n])
	k.logf("read fd=%d sock=%d n=%d %q", fd, s.id, n, s.in[:n])
	s.in = s.in[n:]
	s.TotalRead += n
	fmt.Fprintf(k.pollHash, "r%s%d", s.Role[:1], bucket(n))
	return n, nil
}

func bucket(n int) int {
	b := 0
	for n > 0 {
		n >>= 2
		b++
	}
	return b
}

func (k *Kernel) Write(fd int, p []byte) (int, error) {
	return k.Writev(fd, [][]byte{p})
}

func (k *Kernel) Writev(fd int, iovs [][]byte) (int, error) {
	k.mu.Lock()
	defer k.mu.Unlock()
	s, ok := k.socks[fd]
	if !ok {
		return -1, unix.EBADF
	}
	if s.kind == kEventfd {
		var v uint64 = 1
		if len(iovs) > 0 && len(iovs[0]) >= 8 {
			v = binary.LittleEndian.Uint64(iovs[0])
		}
		s.counter += v
		k.logf("write efd")
		return 8, nil
	}
	k.Stats.Writes++
	total := 0
	for _, b := range iovs {
		total += len(b)
	}
	if s.rstAtWrite && total > 0 {
		// the peer's RST reaches this host after the last epoll_wait returned and before this write: the write is the first
		// call to learn about it (no EPOLLHUP/EPOLLERR was reported beforehand)
		s.rstAtWrite = false
		s.peerRst = true
		s.in = nil
		k.Stats.RstAtWrite++
		k.logf("write fd=%d sock=%d ECONNRESET (RST arrived since the last poll)", fd, s.id)
		k.pollHash.Write([]byte("wR"))
		return -1, unix.ECONNRESET
	}
	if s.peerRst {
		k.logf("write fd=%d sock=%d EPIPE", fd, s.id)
		k.pollHash.Write([]byte("wP"))
		return -1, unix.EPIPE
	}
	if total == 0 {
		return 0, nil
	}
	if s.peerFin {
		// the peer has fully closed: the kernel accepts the segment, the peer answers RST
		s.peerRst = true
		s.TotalWritten += total
		k.logf("write fd=%d sock=%d n=%d into closed peer (RST follows)", fd, s.id, total)
		k.pollHash.Write([]byte("wL"))
		return total, nil
	}
	free := s.sndCap - len(s.out)
	if len(s.out) == 0 && free < minSndBuf {
		// an idle socket (nothing unacknowledged) always has at least the kernel's minimum send buffer free;
		// smaller capacities model a nearly full buffer and only bite while earlier bytes are still queued
		free = minSndBuf
	}
	if free <= 0 {
		k.Stats.EAGAINWrite++
		k.logf("write fd=%d sock=%d EAGAIN", fd, s.id)
		k.pollHash.Write([]byte("wA"))
		return -1, unix.EAGAIN
	}
	n := total
	if n > free {
		n = free
		k.Stats.ShortWrites++
	} else if n > 1 && !s.noShort && len(s.out) > 0 && k.tape.Pct(k.Cfg.ShortWritePct) {
		n = n - k.tape.Choose(n)
		if n < total {
			k.Stats.ShortWrites++
		}
	}
	if s.firstWriteSeq == 0 {
		s.firstWriteSeq = k.seq + 1
	}
	left := n
	start := len(s.out)
	for _, b := range iovs {
		if left == 0 {
			break
		}
		m := len(b)
		if m > left {
			m = left
		}
		s.out = append(s.out, b[:m]...)
		left -= m
	}
	s.TotalWritten += n
	k.logf("write fd=%d sock=%d n=%d/%d %q", fd, s.id, n, total, s.out[start:])
	fmt.Fprintf(k.pollHash, "w%s%d.%v", s.Role[:1], bucket(n), n < total)
	return n, nil
}

func (k *Kernel) Close(fd int) error {
	k.mu.Lock()
	defer k.mu.Unlock()
	s, ok := k.socks[fd]
	if !ok {
		return unix.EBADF
	}
	delete(k.socks, fd)
	for _, e := range k.socks {
		if e.kind == kEpoll {
			delete(e.interest, fd)
		}
	}
	s.closed = true
	s.closedWithUnread = len(s.in) > 0
	s.in = nil
	k.Stats.Closes++
	k.logf("close fd=%d sock=%d unread=%v", fd, s.id, s.closedWithUnread)
	s.closeSeq = k.seq
	fmt.Fprintf(k.pollHash, "c%s", roleInitial(s))
	return nil
}

func roleInitial(s *Sock) string {
	if len(s.Role) > 0 {
		return s.Role[:1]
	}
	return "-"
}

func (k *Kernel) EpollCreate1(flag int) (int, error) {
	k.mu.Lock()
	defer k.mu.Unlock()
	s := k.alloc(kEpoll)
	s.interest = map[int]uint32{}
	k.epfd = s.fd
	k.logf("epoll_create -> %d", s.fd)
	return s.fd, nil
}

func (k *Kernel) EpollCtl(epfd, op, fd int, ev *unix.EpollEvent) error {
	k.mu.Lock()
	defer k.mu.Unlock()
	ep, ok := k.socks[epfd]
	if !ok || ep.kind != kEpoll {
		return unix.EBADF
	}
	if _, ok := k.socks[fd]; !ok {
		k.logf("epoll_ctl op=%d fd=%d EBADF", op, fd)
		return unix.EBADF
	}
	_, have := ep.interest[fd]
	switch op {
	case unix.EPOLL_CTL_ADD:
		if have {
			k.logf("epoll_ctl add fd=%d EEXIST", fd)
			return unix.EEXIST
		}
		ep.interest[fd] = ev.Events
	case unix.EPOLL_CTL_MOD:
		if !have {
			k.logf("epoll_ctl mod fd=%d ENOENT", fd)
			return unix.ENOENT
		}
		ep.interest[fd] = ev.Events
	case unix.EPOLL_CTL_DEL:
		if !have {
			k.logf("epoll_ctl del fd=%d ENOENT", fd)
			return unix.ENOENT
		}
		delete(ep.interest, fd)
	default:
		return unix.EINVAL
	}
	if ev != nil {
		k.logf("epoll_ctl op=%d fd=%d ev=%#x", op, fd, ev.Events)
	} else {
		k.logf("epoll_ctl op=%d fd=%d", op, fd)
	}
	return nil
}

type readyEv struct {
	fd int
	ev uint32
	s  *Sock
}

func (k *Kernel) readyLocked() []readyEv {
	ep := k.socks[k.epfd]
	if ep == nil {
		return nil
	}
	fds := make([]int, 0, len(ep.interest))
	for fd := range ep.interest {
		fds = append(fds, fd)
	}
	sort.Ints(fds)
	var out []readyEv
	for _, fd := range fds {
		want := ep.interest[fd]
		s := k.socks[fd]
		if s == nil {
			continue
		}
		var got uint32
		switch s.kind {
		case kListener:
			if len(s.backlog) > 0 {
				got |= unix.EPOLLIN
			}
		case kEventfd:
			if s.counter > 0 {
				got |= unix.EPOLLIN
			}
		case kStream:
			if len(s.in) > 0 || s.peerFin || s.peerRst {
				got |= unix.EPOLLIN
			}
			if len(s.out) < s.sndCap || len(s.out) == 0 || s.peerRst {
				got |= unix.EPOLLOUT
			}
		}
		got &= want
		if s.kind == kStream && s.peerRst {
			got |= unix.EPOLLERR | unix.EPOLLHUP
		}
		if got != 0 {
			out = append(out, readyEv{fd, got, s})
		}
	}
	return out
}

// AnyReady tells the driver whether a poll would return events right now.
func (k *Kernel) AnyReady() bool {
	k.mu.Lock()
	defer k.mu.Unlock()
	return len(k.readyLocked()) > 0
}

func (k *Kernel) EpollWait(epfd int, evs []unix.EpollEvent, msec int) (int, error) {
	k.mu.Lock()
	if !k.tickSet {
		k.tickSet = true
		runtime.VerifTickThisG() // the event loop is the goroutine whose clock readings must be distinct
	}
	k.parked = true
	k.mu.Unlock()
	<-k.grant
	k.mu.Lock()
	defer k.mu.Unlock()
	k.parked = false
	rl := k.readyLocked()
	// readiness order is arrival order, which is arbitrary: shuffle from the tape (0 = keep fd order)
	for i := len(rl) - 1; i > 0; i-- {
		j := i - k.tape.Choose(i+1)
		rl[i], rl[j] = rl[j], rl[i]
	}
	n := 0
	desc := ""
	if len(rl) > k.Stats.MaxReady {
		k.Stats.MaxReady = len(rl)
	}
	if len(rl) > len(evs) {
		k.Stats.PollsTruncated++
	}
	for _, r := range rl {
		if n >= len(evs) {
			break
		}
		evs[n] = unix.EpollEvent{Fd: int32(r.fd), Events: r.ev}
		n++
		desc += fmt.Sprintf(" %d:%s:%#x", r.fd, kindInitial(r.s), r.ev)
		fmt.Fprintf(k.pollHash, "|%s%#x", kindInitial(r.s), r.ev)
	}
	k.pollHash.Write([]byte{';'})
	k.Stats.Polls++
	if n > 1 {
		k.Stats.PollsMulti++
	}
	if n == 0 {
		k.Stats.PollTimeouts++
	}
	k.logf("epoll_wait n=%d%s", n, desc)
	return n, nil
}

func kindInitial(s *Sock) string {
	switch s.kind {
	case kListener:
		return "L"
	case kEventfd:
		return "E"
	case kStream:
		return roleInitial(s)
	}
	return "?"
}

func (k *Kernel) Eventfd(initval uint, flags int) (int, error) {
	k.mu.Lock()
	defer k.mu.Unlock()
	s := k.alloc(kEventfd)
	s.counter = uint64(initval)
	k.efd = s.fd
	k.logf("eventfd -> %d", s.fd)
	return s.fd, nil
}

// ---- driver side ----

func (k *Kernel) Parked() bool {
	k.mu.Lock()
	defer k.mu.Unlock()
	return k.parked
}

// Grant lets the event loop perform exactly one epoll_wait.
func (k *Kernel) Grant() { k.grant <- struct{}{} }

// NewClientConn queues an incoming connection on the listener.
func (k *Kernel) NewClientConn(label string, raddr *net.TCPAddr) *Sock {
	k.mu.Lock()
	defer k.mu.Unlock()
	k.nextID++
	s := &Sock{fd: -1, kind: kStream, id: k.nextID, opts: map[[2]int]int{}, Role: "client", Label: label,
		raddr: raddr, sndCap: k.Cfg.ClientSndCap}
	k.allSocks = append(k.allSocks, s)
	l := k.socks[k.lfd]
	l.backlog = append(l.backlog, s)
	k.logf("client connect sock=%d %s from %s", s.id, label, raddr)
	return s
}

// NewBackendPlaceholder registers a simulated stream to be returned by the Dup of a real placeholder fd.
func (k *Kernel) NewBackendPlaceholder(pfd int, node string, laddr, raddr *net.TCPAddr) *Sock {
	k.mu.Lock()
	defer k.mu.Unlock()
	k.nextID++
	s := &Sock{fd: -1, kind: kStream, id: k.nextID, opts: map[[2]int]int{}, Role: "backend", Label: node,
		laddr: laddr, raddr: raddr, sndCap: k.Cfg.BackendSndCap}
	k.allSocks = append(k.allSocks, s)
	k.pending[pfd] = s
	k.Stats.Dials++
	k.logf("dial ok sock=%d %s", s.id, node)
	return s
}

// Deliver appends bytes the proxy may read.
func (k *Kernel) Deliver(s *Sock, b []byte) {
	k.mu.Lock()
	defer k.mu.Unlock()
	if s.closed {
		return
	}
	s.in = append(s.in, b...)
	k.logf("deliver sock=%d n=%d %q", s.id, len(b), b)
}

// TakeOut removes up to n bytes (n<=0: all) the proxy wrote.
func (k *Kernel) TakeOut(s *Sock, n int) []byte {
	k.mu.Lock()
	defer k.mu.Unlock()
	if n <= 0 || n > len(s.out) {
		n = len(s.out)
	}
	b := append([]byte(nil), s.out[:n]...)
	s.out = s.out[n:]
	if n > 0 {
		k.logf("takeout sock=%d n=%d", s.id, n)
	}
	return b
}

func (k *Kernel) PeerFin(s *Sock) {
	k.mu.Lock()
	defer k.mu.Unlock()
	s.peerFin = true
	k.logf("peer FIN sock=%d", s.id)
}

// ArmRstAtWrite: the next non-empty write on s fails with ECONNRESET (a reset that arrives between two polls).
func (k *Kernel) ArmRstAtWrite(s *Sock) {
	k.mu.Lock()
	defer k.mu.Unlock()
	s.rstAtWrite = true
	k.logf("RST armed for the next write on sock=%d", s.id)
}

// PeerRst: the peer resets the connection. Bytes delivered earlier and not yet read are either lost with it (keep=false:
// the segments carrying them never arrived) or stay readable before the first ECONNRESET (keep=true: Linux leaves the
// receive queue intact when an RST arrives; tcp_recvmsg hands out queued data before it reports sk_err).
func (k *Kernel) PeerRst(s *Sock, keep bool) {
	k.mu.Lock()
	defer k.mu.Unlock()
	s.peerRst = true
	if !keep {
		s.in = nil
	} else if len(s.in) > 0 {
		k.Stats.RstWithReadableData++
	}
	k.logf("peer RST sock=%d keep=%v", s.id, keep)
}

func (k *Kernel) Lines() []string { return k.lines }
