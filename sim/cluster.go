package simrun

// Executable reference model of a Redis Cluster (stub, not code under test). See DESIGN.md 3.3.

import (
	"bytes"
	"fmt"
	"regexp"
	"sort"
	"strconv"
	"strings"
	"time"
)

type NodeDesc struct {
	ID       string   `json:"id"`
	Addr     string   `json:"addr"` // ip:port
	Master   bool     `json:"master"`
	MasterID string   `json:"master_id,omitempty"`
	Slots    [][2]int `json:"slots,omitempty"`
	Flags    []string `json:"flags,omitempty"` // extra flags: fail, fail?, handshake, noaddr
	Link     string   `json:"link,omitempty"`  // "" = connected
	Loading  bool     `json:"loading,omitempty"`
	LinkDown bool     `json:"link_down,omitempty"` // master_link_status:down (INFO)
	Extra    []string `json:"extra,omitempty"`     // extra trailing columns, e.g. migration markers
}

type Topology struct {
	Nodes []NodeDesc `json:"nodes"`
	// Shuffle != 0: CLUSTER NODES lists the nodes in a permutation derived from it (redis lists them in dictionary order of an
	// internal hash table: replicas may come before their master, the order may change between two descriptions)
	Shuffle uint64 `json:"shuffle,omitempty"`
}

func (t *Topology) ByAddr(a string) *NodeDesc {
	for i := range t.Nodes {
		if t.Nodes[i].Addr == a {
			return &t.Nodes[i]
		}
	}
	return nil
}
func (t *Topology) ByID(id string) *NodeDesc {
	for i := range t.Nodes {
		if t.Nodes[i].ID == id {
			return &t.Nodes[i]
		}
	}
	return nil
}

// Owner returns the master claiming slot (nil if unclaimed).
func (t *Topology) Owner(slot int) *NodeDesc {
	for i := range t.Nodes {
		n := &t.Nodes[i]
		if !n.Master {
			continue
		}
		for _, r := range n.Slots {
			if slot >= r[0] && slot <= r[1] {
				return n
			}
		}
	}
	return nil
}

func (t *Topology) ReplicasOf(id string) []*NodeDesc {
	var out []*NodeDesc
	for i := range t.Nodes {
		if !t.Nodes[i].Master && t.Nodes[i].MasterID == id {
			out = append(out, &t.Nodes[i])
		}
	}
	return out
}

// Render produces CLUSTER NODES text as seen by node `self`.
func (t *Topology) Render(self string) string {
	var b strings.Builder
	order := make([]int, len(t.Nodes))
	for i := range order {
		order[i] = i
	}
	if t.Shuffle != 0 {
		r := NewRng(t.Shuffle)
		for i := len(order) - 1; i > 0; i-- {
			j := r.Intn(i + 1)
			order[i], order[j] = order[j], order[i]
		}
	}
	for _, oi := range order {
		n := t.Nodes[oi]
		flags := []string{}
		if n.Addr == self {
			flags = append(flags, "myself")
		}
		if n.Master {
			flags = append(flags, "master")
		} else {
			flags = append(flags, "slave")
		}
		flags = append(flags, n.Flags...)
		mid := "-"
		if !n.Master {
			mid = n.MasterID
		}
		link := n.Link
		if link == "" {
			link = "connected"
		}
		addr := n.Addr
		hasNoaddr := false
		for _, f := range n.Flags {
			if f == "noaddr" {
				hasNoaddr = true
			}
		}
		if hasNoaddr {
			addr = ":0"
		}
		port := addr[strings.LastIndex(addr, ":")+1:]
		cport := "1" + port
		fmt.Fprintf(&b, "%s %s@%s %s %s 0 1690000000000 %d %s", n.ID, addr, cport, strings.Join(flags, ","), mid, 1, link)
		for _, r := range n.Slots {
			if r[0] == r[1] {
				fmt.Fprintf(&b, " %d", r[0])
			} else {
				fmt.Fprintf(&b, " %d-%d", r[0], r[1])
			}
		}
		for _, e := range n.Extra {
			b.WriteString(" " + e)
		}
		b.WriteString("\n")
	}
	return b.String()
}

// Node is the run-time state of one simulated redis-server.
type Node struct {
	Addr      string
	Up        bool
	AuxMode   string // "" answer, "stall" never answer, "refuse" refuse aux dials
	Hung      bool   // the process is stopped: it neither reads what was sent to it nor answers (connections stay open)
	Store     map[string][]byte
	Migrating map[int]string // slot -> target addr
	Importing map[int]string // slot -> source addr
	Conns     []*BConn
	View      *Topology // what this node reports for CLUSTER NODES (nil = cluster truth)
	ProbeScript []string // one-shot scripted answers for the next probes (raw RESP), consumed in order
}

type CmdRec struct {
	Idx      int
	Node     string
	ConnID   int
	Seq      uint64 // kernel seq when the node consumed it
	Raw      []byte
	Args     [][]byte
	Name     string
	Reply    []byte
	NoReply  bool   // consumed but produces no reply (skip, stalled forever)
	HoldFor  time.Duration
	ReadyAt  time.Time
	Tokens   []string
	Kind     string // "data","handshake","probe","redirect","skip","protoerr"
	RelSeq   uint64 // kernel seq when the last reply byte was released
	RelRound int
	At       time.Duration // fake time since run start when the node consumed the command
	RelAt    time.Duration
	Released bool
	Dropped  bool // connection died before the reply was fully released
	AsReplica bool
	Blocked  bool // queued behind a delayed/stalled reply on the same connection
	// a reply that trickles: its first TrickleCut bytes leave with whatever precedes it, the rest TrickleFor later (a slow or
	// busy node; TCP may deliver any prefix of a reply together with the end of the previous one)
	TrickleCut   int
	TrickleFor   time.Duration
	TrickleUntil time.Time
}

type BConn struct {
	Sock     *Sock
	Node     *Node
	ID       int
	authed   bool
	readonly bool
	asking   bool
	inbuf    []byte
	Pending  []*CmdRec
	relOff   int
	ProtoErr string
	Dead     bool
	Cmds     []*CmdRec
	Stalled  bool
	prevLens []int // lengths of the last few replies released completely (aligned release)
}

type Cluster struct {
	Truth    *Topology
	Nodes    map[string]*Node
	Password string
	Log      []*CmdRec
	Seed     uint64
	conns    []*BConn
	now      func() time.Time
	// counters
	Redirects, ProtoErrs int
}

func NewCluster(t *Topology, seed uint64) *Cluster {
	c := &Cluster{Truth: t, Nodes: map[string]*Node{}, Seed: seed, now: time.Now}
	c.EnsureNodes(t)
	return c
}

func (c *Cluster) EnsureNodes(t *Topology) {
	for _, n := range t.Nodes {
		if _, ok := c.Nodes[n.Addr]; !ok {
			c.Nodes[n.Addr] = &Node{Addr: n.Addr, Up: true, Store: map[string][]byte{}, Migrating: map[int]string{}, Importing: map[int]string{}}
		}
	}
}

func (c *Cluster) NodeAddrs() []string {
	var a []string
	for k := range c.Nodes {
		a = append(a, k)
	}
	sort.Strings(a)
	return a
}

func (c *Cluster) Accept(s *Sock, addr string) *BConn {
	n := c.Nodes[addr]
	bc := &BConn{Sock: s, Node: n, ID: s.ID()}
	n.Conns = append(n.Conns, bc)
	c.conns = append(c.conns, bc)
	return bc
}

func (c *Cluster) Conns() []*BConn { return c.conns }

var tokenRe = regexp.MustCompile(`c\d+r\d+k\d+`)
var dirRe = regexp.MustCompile(`~([A-Z])(\d*)`)

func tokensOf(args [][]byte) []string {
	seen := map[string]bool{}
	var out []string
	for _, a := range args {
		if len(a) > 4096 {
			a = a[:4096]
		}
		for _, m := range tokenRe.FindAll(a, -1) {
			if !seen[string(m)] {
				seen[string(m)] = true
				out = append(out, string(m))
			}
		}
	}
	return out
}

// directives embedded in keys: ~E<n> error n, ~T stall forever, ~D<ms> delay, ~S<n> reply shape, ~L<n> reply length,
// ~P<ms> the reply trickles (a short prefix first, the rest <ms> later)
func directives(keys [][]byte) map[byte]int {
	d := map[byte]int{}
	for _, k := range keys {
		if len(k) > 4096 {
			k = k[:4096]
		}
		for _, m := range dirRe.FindAllSubmatch(k, -1) {
			v := 0
			if len(m[2]) > 0 {
				v, _ = strconv.Atoi(string(m[2]))
			}
			if _, ok := d[m[1][0]]; !ok {
				d[m[1][0]] = v
			}
		}
	}
	return d
}

var ErrCatalogue = []string{
	"-ERR value is not an integer or out of range\r\n",
	"-WRONGTYPE Operation against a key holding the wrong kind of value\r\n",
	"-LOADING Redis is loading the dataset in memory\r\n",
	"-CLUSTERDOWN The cluster is down\r\n",
	"-TRYAGAIN Multiple keys request during rehashing of slot\r\n",
	"-CROSSSLOT Keys in request don't hash to the same slot\r\n",
	"-READONLY You can't write against a read only replica.\r\n",
	"-BUSY Redis is busy running a script. You can only call SCRIPT KILL or SHUTDOWN NOSAVE.\r\n",
	"-NOSCRIPT No matching script. Please use EVAL.\r\n",
	"-OOM command not allowed when used memory > 'maxmemory'.\r\n",
	"-MASTERDOWN Link with MASTER is down and replica-serve-stale-data is set to 'no'.\r\n",
	"-ERR syntax error\r\n",
	"-MISCONF Redis is configured to save RDB snapshots, but it is currently not able to persist on disk. Commands that may modify the data set are disabled, because this instance is configured to report errors during writes if RDB snapshotting fails (stop-writes-on-bgsave-error option). Please check the Redis logs for details about the RDB error.\r\n",
	"-EXECABORT Transaction discarded because of previous errors.\r\n",
	// long error texts of exact total lengths (incl. CRLF) around 128 bytes and beyond, as redis produces for unknown commands
	// with many arguments or for script errors
	longErr(127), longErr(128), longErr(129), longErr(130), longErr(131), longErr(200), longErr(1000),
}

func longErr(total int) string {
	s := "-ERR unknown command 'frobnicate', with args beginning with: "
	for i := 0; len(s) < total-2; i++ {
		s += string(rune('a' + i%26))
	}
	return s[:total-2] + "\r\n"
}


// Redis' read-only commands among the ones rcproxy supports (from the redis command table, not from rcproxy).
var readCmds = map[string]bool{}

func init() {
	for _, s := range strings.Fields(`exists ttl pttl type dump bitcount get getbit getrange mget strlen hexists hget hgetall
 hkeys hlen hmget hscan hvals lindex llen lrange srandmember sscan sdiff sinter sunion scard sismember smembers zcard zcount
 zlexcount zrange zrangebylex zrangebyscore zrank zrevrange zrevrangebyscore zrevrank zscore zscan pfcount`) {
		readCmds[s] = true
	}
}

func IsReadCmd(name string) bool { return readCmds[name] }

// keysOf returns the key arguments the model checks for slot ownership.
func keysOf(name string, args [][]byte) [][]byte {
	switch name {
	case "mget", "del", "exists":
		return args[1:]
	case "mset":
		var ks [][]byte
		for i := 1; i < len(args); i += 2 {
			ks = append(ks, args[i])
		}
		return ks
	case "eval", "evalsha":
		if len(args) >= 4 {
			return args[3:4]
		}
		return nil
	}
	if len(args) >= 2 {
		return args[1:2]
	}
	return nil
}

// Feed gives the node the bytes the proxy wrote on this connection; complete commands are executed and their
// replies queued (not yet released).
func (c *Cluster) Feed(bc *BConn, b []byte, seq uint64) {
	if bc.Dead || bc.ProtoErr != "" {
		return
	}
	bc.inbuf = append(bc.inbuf, b...)
	for {
		args, n, st, why := ParseRedisQuery(bc.inbuf)
		switch st {
		case QIncomplete:
			return
		case QProtoErr:
			bc.ProtoErr = why
			c.ProtoErrs++
			rec := &CmdRec{Idx: len(c.Log), Node: bc.Node.Addr, ConnID: bc.ID, Seq: seq, Raw: append([]byte(nil), bc.inbuf...), Kind: "protoerr",
				Reply: []byte("-ERR Protocol error: " + why + "\r\n")}
			c.Log = append(c.Log, rec)
			bc.Cmds = append(bc.Cmds, rec)
			bc.Pending = append(bc.Pending, rec)
			bc.inbuf = nil
			return
		case QSkip:
			rec := &CmdRec{Idx: len(c.Log), Node: bc.Node.Addr, ConnID: bc.ID, Seq: seq, Raw: append([]byte(nil), bc.inbuf[:n]...), Kind: "skip", NoReply: true}
			c.Log = append(c.Log, rec)
			bc.Cmds = append(bc.Cmds, rec)
			bc.inbuf = bc.inbuf[n:]
			continue
		}
		raw := append([]byte(nil), bc.inbuf[:n]...)
		cp := make([][]byte, len(args))
		for i, a := range args {
			cp[i] = append([]byte(nil), a...)
		}
		bc.inbuf = bc.inbuf[n:]
		rec := c.exec(bc, cp, raw)
		rec.Seq = seq
		if why == "inline" {
			rec.Kind = "inline:" + rec.Kind
		}
		rec.Idx = len(c.Log)
		c.Log = append(c.Log, rec)
		bc.Cmds = append(bc.Cmds, rec)
		for _, pr := range bc.Pending {
			if pr.HoldFor != 0 || pr.Blocked {
				rec.Blocked = true // redis answers in order: this reply waits behind a delayed one
			}
		}
		if !rec.NoReply {
			bc.Pending = append(bc.Pending, rec)
		}
	}
}

func (c *Cluster) exec(bc *BConn, args [][]byte, raw []byte) *CmdRec {
	name := strings.ToLower(string(args[0]))
	rec := &CmdRec{Node: bc.Node.Addr, ConnID: bc.ID, Raw: raw, Args: args, Name: name, Tokens: tokensOf(args[1:]), Kind: "data"}
	reply := func(s string) *CmdRec { rec.Reply = []byte(s); return rec }
	if name == "auth" {
		rec.Kind = "handshake"
		if c.Password == "" {
			return reply("-ERR AUTH <password> called without any password configured for the default user. Are you sure your configuration is correct?\r\n")
		}
		if len(args) == 2 && string(args[1]) == c.Password {
			bc.authed = true
			return reply("+OK\r\n")
		}
		return reply("-ERR invalid password\r\n")
	}
	if c.Password != "" && !bc.authed {
		return reply("-NOAUTH Authentication required.\r\n")
	}
	asking := bc.asking
	bc.asking = false
	switch name {
	case "readonly":
		rec.Kind = "handshake"
		bc.readonly = true
		return reply("+OK\r\n")
	case "asking":
		rec.Kind = "handshake"
		bc.asking = true
		return reply("+OK\r\n")
	case "ping":
		rec.Kind = "handshake"
		return reply("+PONG\r\n")
	case "cluster":
		rec.Kind = "probe"
		if len(bc.Node.ProbeScript) > 0 {
			s := bc.Node.ProbeScript[0]
			bc.Node.ProbeScript = bc.Node.ProbeScript[1:]
			return reply(s)
		}
		v := bc.Node.View
		if v == nil {
			v = c.Truth
		}
		return reply(string(Bulk([]byte(v.Render(bc.Node.Addr)))))
	case "info":
		rec.Kind = "probe"
		return reply(string(Bulk([]byte(c.InfoText(bc.Node.Addr)))))
	}
	keys := keysOf(name, args)
	if len(keys) == 0 {
		return reply("-ERR wrong number of arguments for '" + name + "' command\r\n")
	}
	slot := RefSlot(keys[0])
	for _, k := range keys[1:] {
		if RefSlot(k) != slot {
			return reply("-CROSSSLOT Keys in request don't hash to the same slot\r\n")
		}
	}
	owner := c.Truth.Owner(slot)
	self := c.Truth.ByAddr(bc.Node.Addr)
	if owner == nil {
		return reply("-CLUSTERDOWN Hash slot not served\r\n")
	}
	serve := false
	if self != nil && self.Master && self.ID == owner.ID {
		serve = true
	} else if self != nil && !self.Master && self.MasterID == owner.ID && bc.readonly && IsReadCmd(name) {
		serve = true
		rec.AsReplica = true
	} else if src, ok := bc.Node.Importing[slot]; ok && asking {
		_ = src
		serve = true
	}
	if !serve {
		rec.Kind = "redirect"
		c.Redirects++
		return reply(fmt.Sprintf("-MOVED %d %s\r\n", slot, owner.Addr))
	}
	if tgt, ok := bc.Node.Migrating[slot]; ok {
		absent := true
		for _, k := range keys {
			if _, ok := bc.Node.Store[string(k)]; ok {
				absent = false
			}
		}
		if absent {
			rec.Kind = "redirect"
			c.Redirects++
			return reply(fmt.Sprintf("-ASK %d %s\r\n", slot, tgt))
		}
	}
	d := directives(keys)
	if v, ok := d['D']; ok {
		rec.HoldFor = time.Duration(v) * time.Millisecond
	}
	if _, ok := d['T']; ok {
		rec.HoldFor = -1
	}
	if v, ok := d['P']; ok {
		rec.TrickleFor = time.Duration(v) * time.Millisecond
		rec.TrickleCut = 1 + int(fnv(c.Seed, raw)%7)
	}
	if v, ok := d['E']; ok {
		return reply(ErrCatalogue[v%len(ErrCatalogue)])
	}
	st := bc.Node.Store
	if rec.AsReplica {
		// replicas serve the master's data (replication is modelled as instantaneous)
		if m := c.Nodes[owner.Addr]; m != nil {
			st = m.Store
		}
	}
	switch name {
	case "get":
		if len(args) != 2 {
			break
		}
		if v, ok := st[string(args[1])]; ok {
			return reply(string(Bulk(v)))
		}
		return reply("$-1\r\n")
	case "set":
		if len(args) != 3 {
			break
		}
		st[string(args[1])] = args[2]
		return reply("+OK\r\n")
	case "setnx":
		if len(args) != 3 {
			break
		}
		if _, ok := st[string(args[1])]; ok {
			return reply(":0\r\n")
		}
		st[string(args[1])] = args[2]
		return reply(":1\r\n")
	case "getset":
		if len(args) != 3 {
			break
		}
		old, ok := st[string(args[1])]
		st[string(args[1])] = args[2]
		if ok {
			return reply(string(Bulk(old)))
		}
		return reply("$-1\r\n")
	case "append":
		if len(args) != 3 {
			break
		}
		st[string(args[1])] = append(append([]byte(nil), st[string(args[1])]...), args[2]...)
		return reply(fmt.Sprintf(":%d\r\n", len(st[string(args[1])])))
	case "strlen":
		if len(args) != 2 {
			break
		}
		return reply(fmt.Sprintf(":%d\r\n", len(st[string(args[1])])))
	case "exists":
		n := 0
		for _, k := range args[1:] {
			if _, ok := st[string(k)]; ok {
				n++
			}
		}
		return reply(fmt.Sprintf(":%d\r\n", n))
	case "incr", "decr", "incrby", "decrby":
		delta := int64(1)
		if name == "incrby" || name == "decrby" {
			if len(args) != 3 {
				break
			}
			v, err := strconv.ParseInt(string(args[2]), 10, 64)
			if err != nil {
				return reply(ErrCatalogue[0])
			}
			delta = v
		} else if len(args) != 2 {
			break
		}
		if name == "decr" || name == "decrby" {
			delta = -delta
		}
		cur := int64(0)
		if v, ok := st[string(args[1])]; ok {
			x, err := strconv.ParseInt(string(v), 10, 64)
			if err != nil {
				return reply(ErrCatalogue[0])
			}
			cur = x
		}
		cur += delta
		st[string(args[1])] = []byte(strconv.FormatInt(cur, 10))
		return reply(fmt.Sprintf(":%d\r\n", cur))
	case "del":
		n := 0
		for _, k := range args[1:] {
			if _, ok := st[string(k)]; ok {
				delete(st, string(k))
				n++
			}
		}
		return reply(fmt.Sprintf(":%d\r\n", n))
	case "mget":
		var b bytes.Buffer
		fmt.Fprintf(&b, "*%d\r\n", len(args)-1)
		for _, k := range args[1:] {
			if v, ok := st[string(k)]; ok {
				b.Write(Bulk(v))
			} else {
				b.Write(NilBulk)
			}
		}
		rec.Reply = b.Bytes()
		return rec
	case "mset":
		if len(args) < 3 || len(args)%2 != 1 {
			break
		}
		for i := 1; i+1 < len(args); i += 2 {
			st[string(args[i])] = args[i+1]
		}
		return reply("+OK\r\n")
	}
	rec.Reply = c.scriptReply(rec, d)
	return rec
}

func fnv(seed uint64, b []byte) uint64 {
	h := seed ^ 0xcbf29ce484222325
	for _, c := range b {
		h = (h ^ uint64(c)) * 0x100000001b3
	}
	return h
}

// scriptReply: a well-formed RESP2 reply of a pseudo-random shape (or the shape/length a key directive asks
// for), carrying an echo of the key (hence the request token) where the shape allows.
func (c *Cluster) scriptReply(rec *CmdRec, d map[byte]int) []byte {
	raw := rec.Raw
	if len(raw) > 512 {
		raw = raw[:512]
	}
	h := fnv(c.Seed, raw)
	shape := int(h % 16)
	if v, ok := d['S']; ok {
		shape = v % 16
	}
	key := []byte{}
	if ks := keysOf(rec.Name, rec.Args); len(ks) > 0 {
		key = ks[0]
		if len(key) > 64 {
			key = key[:64]
		}
	}
	size, hasSize := d['L']
	pad := func(prefix []byte, n int) []byte {
		out := append([]byte(nil), prefix...)
		for len(out) < n {
			out = append(out, byte('a'+(len(out)*7+int(h%13))%26))
		}
		return out[:max(n, 0)]
	}
	switch shape {
	case 0:
		return []byte("+OK\r\n")
	case 1:
		return []byte("+QUEUED-" + strconv.FormatUint(h%1000, 10) + "\r\n")
	case 2:
		return []byte(":" + strconv.FormatInt(int64(h%100000)-500, 10) + "\r\n")
	case 3:
		return append([]byte(nil), NilBulk...)
	case 4:
		return Bulk(nil) // empty bulk
	case 5:
		n := len(key) + 3 + int(h%40)
		if hasSize {
			n = size
		}
		return Bulk(pad(append([]byte("R:"), key...), n))
	case 6: // binary bulk with CRLF, NUL and RESP look-alikes
		body := append([]byte("B\r\n$5\r\n*2\r\n\x00\xff-ERR :1\r\n+OK\r\n"), key...)
		if hasSize {
			body = pad(body, size)
		}
		return Bulk(body)
	case 7: // flat array of bulks incl. nil and empty
		var b bytes.Buffer
		n := 1 + int(h%5)
		fmt.Fprintf(&b, "*%d\r\n", n+2)
		for i := 0; i < n; i++ {
			b.Write(Bulk(append([]byte(fmt.Sprintf("e%d:", i)), key...)))
		}
		b.Write(NilBulk)
		b.Write(Bulk(nil))
		return b.Bytes()
	case 8:
		return []byte("*0\r\n")
	case 9:
		return []byte("*-1\r\n")
	case 10: // nested (scan-like): cursor + array, integers, status inside arrays
		var b bytes.Buffer
		b.WriteString("*2\r\n")
		b.Write(Bulk([]byte(strconv.FormatUint(h%97, 10))))
		b.WriteString("*3\r\n")
		b.Write(Bulk(key))
		b.WriteString(":42\r\n")
		b.WriteString("*2\r\n+inner\r\n$-1\r\n")
		return b.Bytes()
	case 11:
		return []byte(ErrCatalogue[int(h>>8)%len(ErrCatalogue)])
	default: // 12..15: a pseudo-random nested value (null arrays, empty arrays, nil/empty bulks and integers at any depth and position)
		var b bytes.Buffer
		x := h
		next := func(n uint64) uint64 {
			x = (x ^ (x >> 29)) * 0xbf58476d1ce4e5b9
			x ^= x >> 32
			return x % n
		}
		var gen func(depth int)
		gen = func(depth int) {
			k := next(12)
			if depth >= 4 && k >= 9 {
				k = next(9)
			}
			switch k {
			case 0:
				b.WriteString("+st" + strconv.FormatUint(next(100), 10) + "\r\n")
			case 1:
				b.WriteString(":" + strconv.FormatInt(int64(next(2000000))-1000000, 10) + "\r\n")
			case 2:
				b.Write(NilBulk)
			case 3:
				b.Write(Bulk(nil))
			case 4, 5:
				b.Write(Bulk(append([]byte("n:"), key...)))
			case 6:
				b.WriteString("*-1\r\n")
			case 7:
				b.WriteString("*0\r\n")
			case 8:
				if next(4) == 0 {
					b.WriteString("-ERR nested error element\r\n")
				} else {
					b.Write(Bulk([]byte("x\r\n*-1\r\n$-1\r\n")))
				}
			default:
				n := int(next(6))
				fmt.Fprintf(&b, "*%d\r\n", n)
				for i := 0; i < n; i++ {
					gen(depth + 1)
				}
			}
		}
		n := 1 + int(next(6))
		fmt.Fprintf(&b, "*%d\r\n", n)
		for i := 0; i < n; i++ {
			gen(1)
		}
		return b.Bytes()
	}
}

func (c *Cluster) InfoText(addr string) string {
	d := c.Truth.ByAddr(addr)
	loading, link := "0", "up"
	if d != nil && d.Loading {
		loading = "1"
	}
	if d != nil && d.LinkDown {
		link = "down"
	}
	s := "# Server\r\nredis_version:6.2.6\r\nredis_mode:cluster\r\n# Persistence\r\nloading:" + loading + "\r\n"
	if d != nil && !d.Master {
		s += "# Replication\r\nrole:slave\r\nmaster_link_status:" + link + "\r\n"
	} else {
		s += "# Replication\r\nrole:master\r\n"
	}
	return s
}

// AuxExec answers the blocking redis client (INFO / PING / AUTH) for node addr.
func (c *Cluster) AuxExec(addr string, args [][]byte, authed *bool) []byte {
	name := strings.ToLower(string(args[0]))
	if name == "auth" {
		if c.Password == "" {
			return []byte("-ERR AUTH <password> called without any password configured for the default user. Are you sure your configuration is correct?\r\n")
		}
		if len(args) == 2 && string(args[1]) == c.Password {
			*authed = true
			return []byte("+OK\r\n")
		}
		return []byte("-ERR invalid password\r\n")
	}
	if c.Password != "" && !*authed {
		return []byte("-NOAUTH Authentication required.\r\n")
	}
	switch name {
	case "ping":
		return []byte("+PONG\r\n")
	case "info":
		return Bulk([]byte(c.InfoText(addr)))
	}
	return []byte("-ERR unknown command '" + name + "'\r\n")
}
