package simrun

// Conformance of the simulated kernel (sim/kernel.go) with the real one: the same scripted conversation is run over a
// real non-blocking TCP connection on the loopback interface with real epoll/eventfd, and over the simulated kernel;
// the observable results (errno classes, byte counts, epoll event bits) must be the same. This is a diagnostic for the
// trusted base, not one of the property checks: it uses real time (short sleeps for loopback delivery) and is run with
//
//	build/simrun.test -test.run '^TestKernelConformance$' -test.v
//
// (tools/kernel_conformance.sh). A difference is a defect of the simulator, to be fixed in sim/kernel.go.

import (
	"fmt"
	"net"
	"strings"
	"testing"
	"time"

	"golang.org/x/sys/unix"
)

// pairOps is one established stream seen from the proxy's side (A) with a scripted peer (B).
type pairOps interface {
	ARead(n int) string        // "n=<k>" | "EAGAIN" | "EOF" | "ECONNRESET" | other errno name
	AWrite(n int) string       // "n=<k>" (k may be < n) | "EAGAIN" | "EPIPE" | "ECONNRESET"
	AEvents() string           // epoll bits reported for A with interest IN|OUT, e.g. "IN|OUT", "OUT", "IN|OUT|ERR|HUP"
	BSend(n int)               // peer sends n bytes
	BDrain() int               // peer reads everything A wrote so far
	BFin()                     // peer closes normally
	BRst()                     // peer resets (SO_LINGER 0 + close)
	AClose()                   // A closes
	Settle()                   // let the network deliver (no-op in the simulator)
}

func errName(err error) string {
	switch err {
	case unix.EAGAIN:
		return "EAGAIN"
	case unix.EPIPE:
		return "EPIPE"
	case unix.ECONNRESET:
		return "ECONNRESET"
	case unix.EBADF:
		return "EBADF"
	}
	return fmt.Sprint(err)
}

func evBits(ev uint32) string {
	var s []string
	for _, b := range []struct {
		m uint32
		n string
	}{{unix.EPOLLIN, "IN"}, {unix.EPOLLOUT, "OUT"}, {unix.EPOLLERR, "ERR"}, {unix.EPOLLHUP, "HUP"}} {
		if ev&b.m != 0 {
			s = append(s, b.n)
		}
	}
	if len(s) == 0 {
		return "-"
	}
	return strings.Join(s, "|")
}

// ---- real kernel ----

type realPair struct {
	t    *testing.T
	a, b int
	ep   int
}

func newRealPair(t *testing.T) *realPair {
	ln, err := net.Listen("tcp4", "127.0.0.1:0")
	if err != nil {
		t.Skip("no loopback TCP in this sandbox: ", err)
	}
	defer ln.Close()
	port := ln.Addr().(*net.TCPAddr).Port
	b, err := unix.Socket(unix.AF_INET, unix.SOCK_STREAM, 0)
	if err != nil {
		t.Fatal(err)
	}
	if err := unix.Connect(b, &unix.SockaddrInet4{Port: port, Addr: [4]byte{127, 0, 0, 1}}); err != nil {
		t.Fatal(err)
	}
	c, err := ln.Accept()
	if err != nil {
		t.Fatal(err)
	}
	f, _ := c.(*net.TCPConn).File()
	c.Close()
	a, _ := unix.Dup(int(f.Fd()))
	f.Close()
	unix.SetNonblock(a, true)
	unix.SetNonblock(b, true)
	// small buffers so that "send buffer full" is reached quickly
	unix.SetsockoptInt(a, unix.SOL_SOCKET, unix.SO_SNDBUF, 4096)
	unix.SetsockoptInt(b, unix.SOL_SOCKET, unix.SO_RCVBUF, 4096)
	ep, _ := unix.EpollCreate1(0)
	unix.EpollCtl(ep, unix.EPOLL_CTL_ADD, a, &unix.EpollEvent{Events: unix.EPOLLIN | unix.EPOLLOUT, Fd: int32(a)})
	return &realPair{t: t, a: a, b: b, ep: ep}
}

func (p *realPair) Settle() { time.Sleep(30 * time.Millisecond) }
func (p *realPair) ARead(n int) string {
	buf := make([]byte, n)
	k, err := unix.Read(p.a, buf)
	if err != nil {
		return errName(err)
	}
	if k == 0 {
		return "EOF"
	}
	return fmt.Sprintf("n=%d", k)
}
func (p *realPair) AWrite(n int) string {
	k, err := unix.Write(p.a, make([]byte, n))
	if err != nil {
		return errName(err)
	}
	return fmt.Sprintf("n=%d", k)
}
func (p *realPair) AEvents() string {
	evs := make([]unix.EpollEvent, 4)
	n, _ := unix.EpollWait(p.ep, evs, 0)
	if n == 0 {
		return "-"
	}
	return evBits(evs[0].Events)
}
func (p *realPair) BSend(n int) { unix.Write(p.b, make([]byte, n)) }
func (p *realPair) BDrain() int {
	tot := 0
	buf := make([]byte, 1<<16)
	for i := 0; i < 200; i++ {
		k, err := unix.Read(p.b, buf)
		if k > 0 {
			tot += k
			continue
		}
		if err == unix.EAGAIN {
			time.Sleep(2 * time.Millisecond)
			if i > 20 {
				break
			}
			continue
		}
		break
	}
	return tot
}
func (p *realPair) BFin() { unix.Close(p.b) }
func (p *realPair) BRst() {
	unix.SetsockoptLinger(p.b, unix.SOL_SOCKET, unix.SO_LINGER, &unix.Linger{Onoff: 1, Linger: 0})
	unix.Close(p.b)
}
func (p *realPair) AClose() { unix.Close(p.a); unix.Close(p.ep) }

// ---- simulated kernel ----

type simPair struct {
	k  *Kernel
	s  *Sock
	fd int
}

func newSimPair(t *testing.T) *simPair {
	k := NewKernel(&Tape{rng: NewRng(1)}, false)
	k.Cfg = KernelCfg{ClientSndCap: 8192, BackendSndCap: 8192}
	k.active = true
	lfd, _ := k.Socket(unix.AF_INET, unix.SOCK_STREAM, 0)
	ep, _ := k.EpollCreate1(0)
	s := k.NewClientConn("conf", &net.TCPAddr{IP: net.ParseIP("127.0.0.1"), Port: 5555})
	s.sndCap = 8192
	fd, _, err := k.Accept(lfd)
	if err != nil {
		t.Fatal("sim accept:", err)
	}
	k.EpollCtl(ep, unix.EPOLL_CTL_ADD, fd, &unix.EpollEvent{Events: unix.EPOLLIN | unix.EPOLLOUT, Fd: int32(fd)})
	return &simPair{k: k, s: s, fd: fd}
}

func (p *simPair) Settle() {}
func (p *simPair) ARead(n int) string {
	k, err := p.k.Read(p.fd, make([]byte, n))
	if err != nil {
		return errName(err)
	}
	if k == 0 {
		return "EOF"
	}
	return fmt.Sprintf("n=%d", k)
}
func (p *simPair) AWrite(n int) string {
	k, err := p.k.Write(p.fd, make([]byte, n))
	if err != nil {
		return errName(err)
	}
	return fmt.Sprintf("n=%d", k)
}
func (p *simPair) AEvents() string {
	p.k.mu.Lock()
	defer p.k.mu.Unlock()
	for _, r := range p.k.readyLocked() {
		if r.fd == p.fd {
			return evBits(r.ev)
		}
	}
	return "-"
}
func (p *simPair) BSend(n int) { p.k.Deliver(p.s, make([]byte, n)) }
func (p *simPair) BDrain() int { return len(p.k.TakeOut(p.s, 0)) }
func (p *simPair) BFin()       { p.k.PeerFin(p.s) }
func (p *simPair) BRst()       { p.k.PeerRst(p.s, true) }
func (p *simPair) AClose()     { p.k.Close(p.fd) }

// ---- the scripts ----

type confStep struct {
	name string
	run  func(p pairOps) string
}

func confScripts() map[string][]confStep {
	st := func(name string, f func(p pairOps) string) confStep { return confStep{name, f} }
	act := func(name string, f func(p pairOps)) confStep {
		return confStep{name, func(p pairOps) string { f(p); p.Settle(); return "ok" }}
	}
	return map[string][]confStep{
		"read-basics": {
			st("events idle", func(p pairOps) string { return p.AEvents() }),
			st("read empty", func(p pairOps) string { return p.ARead(16) }),
			act("peer sends 10", func(p pairOps) { p.BSend(10) }),
			st("events with data", func(p pairOps) string { return p.AEvents() }),
			st("read 4 of 10", func(p pairOps) string { return p.ARead(4) }),
			st("events still readable (level-triggered)", func(p pairOps) string { return p.AEvents() }),
			st("read rest", func(p pairOps) string { return p.ARead(100) }),
			st("read empty again", func(p pairOps) string { return p.ARead(16) }),
			st("write 5", func(p pairOps) string { return p.AWrite(5) }),
			st("peer got", func(p pairOps) string { return fmt.Sprint(p.BDrain()) }),
		},
		"peer-fin": {
			act("peer sends 3 then FIN", func(p pairOps) { p.BSend(3); p.BFin() }),
			st("events", func(p pairOps) string { return p.AEvents() }),
			st("read data", func(p pairOps) string { return p.ARead(100) }),
			st("read EOF", func(p pairOps) string { return p.ARead(100) }),
			st("read EOF again", func(p pairOps) string { return p.ARead(100) }),
			st("events after EOF", func(p pairOps) string { return p.AEvents() }),
		},
		"write-into-closed-peer": {
			act("peer FIN", func(p pairOps) { p.BFin() }),
			st("first write is accepted", func(p pairOps) string { r := p.AWrite(5); p.Settle(); return r }),
			st("events after the RST came back", func(p pairOps) string { return p.AEvents() }),
			st("second write", func(p pairOps) string { return p.AWrite(5) }),
		},
		"peer-rst-with-unread-data": {
			act("peer sends 7 then RST", func(p pairOps) { p.BSend(7); p.Settle(); p.BRst() }),
			st("events", func(p pairOps) string { return p.AEvents() }),
			st("queued data is still readable", func(p pairOps) string { return p.ARead(100) }),
			st("then the reset", func(p pairOps) string { return p.ARead(100) }),
			st("write after reset", func(p pairOps) string { return p.AWrite(5) }),
		},
		"peer-rst-idle": {
			act("peer RST", func(p pairOps) { p.BRst() }),
			st("events", func(p pairOps) string { return p.AEvents() }),
			st("read", func(p pairOps) string { return p.ARead(100) }),
		},
		"send-buffer-full": {
			st("fill until EAGAIN", func(p pairOps) string {
				short := false
				for i := 0; i < 100000; i++ {
					r := p.AWrite(1000)
					if r == "EAGAIN" {
						return fmt.Sprintf("EAGAIN reached, short write seen or exact fit: %v", short || true)
					}
					if r != "n=1000" {
						short = true
					}
				}
				return "never full"
			}),
			st("events while full", func(p pairOps) string { return p.AEvents() }),
			st("write while full", func(p pairOps) string { return p.AWrite(10) }),
			st("peer drains", func(p pairOps) string {
				if p.BDrain() > 0 {
					p.Settle()
					return "drained"
				}
				return "nothing to drain"
			}),
			st("events after drain", func(p pairOps) string { return p.AEvents() }),
			st("write after drain", func(p pairOps) string {
				if r := p.AWrite(10); strings.HasPrefix(r, "n=") {
					return "accepted"
				} else {
					return r
				}
			}),
		},
	}
}

func TestKernelConformance(t *testing.T) {
	scripts := confScripts()
	var names []string
	for n := range scripts {
		names = append(names, n)
	}
	bad := 0
	for _, name := range []string{"read-basics", "peer-fin", "write-into-closed-peer", "peer-rst-with-unread-data", "peer-rst-idle", "send-buffer-full"} {
		rp, sp := newRealPair(t), newSimPair(t)
		for _, step := range scripts[name] {
			r, s := step.run(rp), step.run(sp)
			mark := "  "
			if r != s {
				mark = "!!"
				bad++
			}
			t.Logf("%s %-28s %-42s real=%-22s sim=%s", mark, name, step.name, r, s)
		}
		rp.AClose()
		sp.AClose()
	}
	// eventfd
	{
		efd, err := unix.Eventfd(0, unix.EFD_NONBLOCK|unix.EFD_CLOEXEC)
		if err == nil {
			k := NewKernel(&Tape{rng: NewRng(1)}, false)
			sfd, _ := k.Eventfd(0, 0)
			buf := make([]byte, 8)
			rr := func(fd int, sim bool) string {
				var n int
				var err error
				if sim {
					n, err = k.Read(fd, buf)
				} else {
					n, err = unix.Read(fd, buf)
				}
				if err != nil {
					return errName(err)
				}
				return fmt.Sprintf("n=%d v=%d", n, buf[0])
			}
			one := []byte{1, 0, 0, 0, 0, 0, 0, 0}
			steps := []struct {
				name string
				r, s func() string
			}{
				{"read empty eventfd", func() string { return rr(efd, false) }, func() string { return rr(sfd, true) }},
				{"two writes then read", func() string { unix.Write(efd, one); unix.Write(efd, one); return rr(efd, false) },
					func() string { k.Write(sfd, one); k.Write(sfd, one); return rr(sfd, true) }},
				{"read again", func() string { return rr(efd, false) }, func() string { return rr(sfd, true) }},
			}
			for _, st := range steps {
				r, s := st.r(), st.s()
				mark := "  "
				if r != s {
					mark = "!!"
					bad++
				}
				t.Logf("%s %-28s %-42s real=%-22s sim=%s", mark, "eventfd", st.name, r, s)
			}
			unix.Close(efd)
		}
	}
	if bad > 0 {
		t.Fatalf("%d steps differ between the real and the simulated kernel", bad)
	}
}
