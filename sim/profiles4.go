package simrun

import (
	"bytes"
	"fmt"
	"strings"
)

// ---- C11: backend errors reach the client as errors ----

func init() {
	register(&Profile{Name: "C11", Prop: "C11", Gen: genC11, Check: checkC11})
}

func (g *Gen) errSplit(tok, cmd string, k int, subset int, errIdx int) ReqPlan {
	var keys, vals []string
	used := map[int]bool{}
	for i := 0; i < k; i++ {
		slot := g.R.Intn(16384)
		for used[slot] {
			slot = g.R.Intn(16384)
		}
		used[slot] = true
		sfx := ""
		if subset&(1<<i) != 0 {
			sfx = fmt.Sprintf("~E%d", errIdx)
		}
		keys = append(keys, Key(tok, i, slot, sfx))
		if g.R.Pct(30) { // a second key in the same fragment
			keys = append(keys, Key(tok, 10+i, slot, ""))
		}
	}
	if cmd == "mset" {
		for i := range keys {
			vals = append(vals, fmt.Sprintf("v%d", i))
		}
	}
	return g.Split(tok, cmd, keys, vals)
}

func genC11(g *Gen) {
	p := g.Plan
	p.Topos = []Topology{g.StdTopology(g.R.Range(4, 6), 0, false)}
	p.Proxy.DisableSlave = true
	p.Proxy.ServerConns = g.R.Range(1, 2)
	p.Proxy.BufCap = []int{257, 65536}[g.R.Intn(2)]
	g.cleanKernel()
	p.Sched.WRelease = 2
	if n, ok := variantNum(p.Variant, "enum:"); ok {
		kind := n % 4 // 0 single, 1 mget, 2 del, 3 mset
		n /= 4
		errIdx := n % len(ErrCatalogue)
		n /= len(ErrCatalogue)
		// (k, subset) pairs for k<=4: 1+3+7+15 = 26
		k, subset := 1, 1
		idx := n % 26
		for kk := 1; kk <= 4; kk++ {
			cnt := (1 << kk) - 1
			if idx < cnt {
				k, subset = kk, idx+1
				break
			}
			idx -= cnt
		}
		cp := ClientPlan{Addr: clientAddr(0), Mode: "pipeline", CloseAfterSent: -1, CloseAfterReplies: -1}
		cp.Reqs = append(cp.Reqs, g.randomSingle(Tok(0, 0), -1))
		if kind == 0 {
			cp.Reqs = append(cp.Reqs, g.Single(Tok(0, 1), g.R.Pick([]string{"get", "incr", "hgetall", "lpop"}), Key(Tok(0, 1), 0, -1, fmt.Sprintf("~E%d", errIdx))))
		} else {
			cp.Reqs = append(cp.Reqs, g.errSplit(Tok(0, 1), []string{"", "mget", "del", "mset"}[kind], k, subset, errIdx))
		}
		cp.Reqs = append(cp.Reqs, g.randomSingle(Tok(0, 2), -1))
		p.Clients = append(p.Clients, cp)
		// a second client that must keep being served
		cp2 := ClientPlan{Addr: clientAddr(1), Mode: "closed", CloseAfterSent: -1, CloseAfterReplies: -1}
		for ri := 0; ri < 3; ri++ {
			cp2.Reqs = append(cp2.Reqs, g.randomSingle(Tok(1, ri), -1))
		}
		p.Clients = append(p.Clients, cp2)
		return
	}
	nc := g.R.Range(1, 3)
	for ci := 0; ci < nc; ci++ {
		cp := ClientPlan{Addr: clientAddr(ci), Mode: g.R.Pick([]string{"pipeline", "closed"}), CloseAfterSent: -1, CloseAfterReplies: -1, StartStep: g.R.Intn(10)}
		n := g.R.Range(1, 10)
		for ri := 0; ri < n; ri++ {
			tok := Tok(ci, ri)
			e := g.R.Intn(len(ErrCatalogue))
			switch g.R.Intn(4) {
			case 0:
				cp.Reqs = append(cp.Reqs, g.Single(tok, g.R.Pick([]string{"get", "incr", "hgetall", "lpop", "smembers"}), Key(tok, 0, -1, fmt.Sprintf("~E%d", e))))
			case 1:
				k := g.R.Range(1, 5)
				cp.Reqs = append(cp.Reqs, g.errSplit(tok, g.R.Pick([]string{"mget", "del", "mset"}), k, g.R.Range(1, (1<<k)-1), e))
			case 2:
				cp.Reqs = append(cp.Reqs, g.randomSplit(tok, 4, 0))
			default:
				cp.Reqs = append(cp.Reqs, g.randomSingle(tok, -1))
			}
		}
		p.Clients = append(p.Clients, cp)
	}
}

func checkC11(d *Driver, res *Result) {
	d.StdReplyCheck("C11", Relax{})
	errs := 0
	for _, r := range d.C.Log {
		if r.Kind == "data" && len(r.Reply) > 0 && r.Reply[0] == '-' {
			errs++
		}
	}
	d.Counters["c11_error_replies"] = errs
	res.Nontrivial = errs > 0
	res.Sample = fmt.Sprintf("%d clients, %d requests, %d fragments answered with an error by the backends", len(d.Clients), totalReqs(d), errs)
}

// ---- C12: hostile client input ----

func init() {
	register(&Profile{Name: "C12", Prop: "C12", Gen: genC12, Check: checkC12})
}

// hostileStream returns a byte stream built by mutating valid RESP, and whether the reference grammar (what
// redis-server accepts) finds a definite protocol error in it.
func (g *Gen) hostileStream() []byte {
	valid := func() []byte {
		tok := fmt.Sprintf("h%d", g.R.Intn(1000))
		switch g.R.Intn(4) {
		case 0:
			return EncodeCommandS("get", "hk"+tok)
		case 1:
			return EncodeCommandS("set", "hk"+tok, "v")
		case 2:
			return EncodeCommandS("mget", "hk"+tok, "hk2"+tok)
		}
		return EncodeCommandS("ping")
	}
	var b bytes.Buffer
	for i := g.R.Intn(3); i > 0; i-- {
		b.Write(valid())
	}
	counts := []string{"0", "-1", "-2", "99999999999999999999", "2147483648", "+3", "03", " 3", "3 ", "", "x", "1048577", "-0"}
	lens := []string{"-1", "-2", "+3", "03", " 3", "", "536870913", "99999999999999999999", "x"}
	// numbers that equal a valid count/length only after wrapping (2^64, 2^32 added) or after sloppy parsing
	wrapNum := func(v int) string {
		switch g.R.Intn(6) {
		case 0:
			return fmt.Sprintf("1844674407370955%d", 1616+v) // 2^64 + v (v < 8000)
		case 1:
			return fmt.Sprint(4294967296 + int64(v)) // 2^32 + v
		case 2:
			return fmt.Sprintf("3689348814741910%d", 3232+v) // 2*2^64 + v
		case 3:
			return fmt.Sprintf("%d ", v)
		case 4:
			return fmt.Sprintf("0%d", v)
		}
		return fmt.Sprintf("+%d", v)
	}
	switch g.R.Intn(19) {
	case 16: // count field replaced
		key := fmt.Sprintf("hk%d", g.R.Intn(1000))
		fmt.Fprintf(&b, "*%s\r\n$3\r\nget\r\n$%d\r\n%s\r\n", wrapNum(2), len(key), key)
	case 17: // a bulk length replaced (command name or argument)
		key := fmt.Sprintf("hk%d", g.R.Intn(1000))
		if g.R.Pct(50) {
			fmt.Fprintf(&b, "*2\r\n$3\r\nget\r\n$%s\r\n%s\r\n", wrapNum(len(key)), key)
		} else {
			fmt.Fprintf(&b, "*3\r\n$%s\r\nset\r\n$%d\r\n%s\r\n$1\r\nv\r\n", wrapNum(3), len(key), key)
		}
	case 18: // in a multi-key command
		fmt.Fprintf(&b, "*3\r\n$4\r\nmget\r\n$%s\r\nhka\r\n$3\r\nhkb\r\n", wrapNum(3))
	case 0:
		fmt.Fprintf(&b, "*%s\r\n", g.R.Pick(counts))
	case 1:
		fmt.Fprintf(&b, "*2\r\n$3\r\nget\r\n$%s\r\n", g.R.Pick(lens))
	case 2:
		fmt.Fprintf(&b, "*2\r\n$%s\r\nget\r\n$3\r\nabc\r\n", g.R.Pick(lens))
	case 3:
		b.WriteString("*2\n$3\nget\n$3\nabc\n") // bare LF
	case 4:
		b.WriteString("*2\r$3\rget\r$3\rabc\r") // bare CR
	case 5:
		b.WriteString("*2\r\n:3\r\nget\r\n$3\r\nabc\r\n") // wrong type marker
	case 6:
		b.WriteString(g.R.Pick([]string{"PING\r\n", "GET foo\r\n", "get \"unbalanced\r\n", "\r\n", "\n", "SET a 'x\r\n"}))
	case 7:
		v := valid()
		b.Write(v[:g.R.Range(1, len(v)-1)]) // truncated, never completed
	case 8:
		b.WriteString("*2\r\n$3\r\nget\r\n$1000000\r\nshort") // oversized declared length never fulfilled
	case 9:
		n := g.R.Range(1, 200)
		for i := 0; i < n; i++ {
			b.WriteByte(byte(g.R.Intn(256)))
		}
	case 10:
		b.WriteString("*2\r\n$3\r\nget\r\n$3\r\nabcXY") // wrong bulk terminator
	case 11:
		b.WriteString("*1\r\n$-1\r\n")
	case 12:
		b.WriteString("*3\r\n$3\r\nset\r\n$-1\r\n$1\r\nv\r\n")
	case 13:
		b.WriteString("*-1\r\n" + string(valid()))
	case 14:
		b.WriteString("*0\r\n" + string(valid()))
	default:
		v := valid()
		i := g.R.Intn(len(v))
		v[i] = byte(g.R.Intn(256))
		b.Write(v)
	}
	for i := g.R.Intn(3); i > 0; i-- {
		b.Write(valid())
	}
	return b.Bytes()
}

// definiteProtoError: does redis-server's parser hit a protocol error in this stream (not merely incomplete)?
func definiteProtoError(stream []byte) (bool, string) {
	for len(stream) > 0 {
		_, n, st, why := ParseRedisQuery(stream)
		switch st {
		case QProtoErr:
			return true, why
		case QIncomplete:
			return false, ""
		}
		stream = stream[n:]
	}
	return false, ""
}

func genC12(g *Gen) {
	p := g.Plan
	p.Topos = []Topology{g.StdTopology(3, 0, false)}
	p.Proxy.DisableSlave = true
	p.Proxy.BufCap = []int{16, 64, 257, 65536}[g.R.Intn(4)]
	g.cleanKernel()
	p.Kernel.ShortReadPct = g.R.Range(0, 40)
	p.Sched.ChunkPct = 50
	no := g.R.Range(1, 2)
	ci := 0
	for ; ci < no; ci++ {
		cp := ClientPlan{Addr: clientAddr(ci), Mode: "pipeline", CloseAfterSent: -1, CloseAfterReplies: -1, StartStep: g.R.Intn(30), Hostile: true}
		cp.Reqs = append(cp.Reqs, ReqPlan{Raw: g.hostileStream(), Class: "hostile", Tok: Tok(ci, 0)})
		if g.R.Pct(40) {
			// the offender goes away after its last byte (possibly in the middle of a request it never completes); a newcomer
			// accepted afterwards gets the same descriptor number and must be served like anybody else
			cp.CloseAfterSent = len(cp.Reqs[0].Raw)
			cp.CloseRst = g.R.Pct(50)
		}
		p.Clients = append(p.Clients, cp)
	}
	offenders := ci
	nw := g.R.Range(1, 2)
	for w := 0; w < nw; w++ {
		cp := ClientPlan{Addr: clientAddr(ci), Mode: "closed", CloseAfterSent: -1, CloseAfterReplies: -1, Witness: true}
		n := g.R.Range(4, 12)
		for ri := 0; ri < n; ri++ {
			tok := Tok(ci, ri)
			if g.R.Pct(25) {
				cp.Reqs = append(cp.Reqs, g.randomSplit(tok, 3, 0))
			} else {
				cp.Reqs = append(cp.Reqs, g.randomSingle(tok, -1))
			}
		}
		p.Clients = append(p.Clients, cp)
		ci++
	}
	for oi := 0; oi < offenders; oi++ {
		if p.Clients[oi].CloseAfterSent < 0 {
			continue
		}
		cp := ClientPlan{Addr: clientAddr(ci), Mode: "closed", CloseAfterSent: -1, CloseAfterReplies: -1, Witness: true, StartAfterClient: oi + 1}
		for ri, n := 0, g.R.Range(2, 6); ri < n; ri++ {
			tok := Tok(ci, ri)
			if g.R.Pct(30) {
				cp.Reqs = append(cp.Reqs, g.Local(tok, "ping", RPong))
			} else {
				cp.Reqs = append(cp.Reqs, g.randomSingle(tok, -1))
			}
		}
		p.Clients = append(p.Clients, cp)
		ci++
	}
}

func checkC12(d *Driver, res *Result) {
	d.StdReplyCheck("C12", Relax{}) // witnesses only: hostile clients are skipped
	d.NoBackendProtoErrors("C12")
	// what reached a backend must be something redis accepts as a multibulk command of the supported kind (no inline, no skip)
	for _, r := range d.C.Log {
		if strings.HasPrefix(r.Kind, "inline") || r.Kind == "skip" {
			d.violate("C12", "backend-got-non-multibulk", map[string]string{"what": strings.SplitN(r.Kind, ":", 2)[0]}, "node %s received %q", r.Node, clip(r.Raw, 80))
			break
		}
	}
	definite := 0
	for _, c := range d.Clients {
		if !c.Plan.Hostile || !c.Connected {
			continue
		}
		def, why := definiteProtoError(c.stream)
		if !def || c.sent < len(c.stream) {
			continue
		}
		definite++
		closed := c.Sock.Closed()
		gotErr := false
		for _, r := range c.Replies {
			if len(r) > 0 && r[0] == '-' {
				gotErr = true
			}
		}
		if !closed && !gotErr {
			d.violate("C12", "protocol-error-ignored", map[string]string{"why": why},
				"offender sent %q (redis: Protocol error: %s); after the settle phase the connection is still open and no error reply was sent (%d replies)", clip(c.stream, 100), why, len(c.Replies))
		}
	}
	d.Counters["c12_definite_protocol_errors"] = definite
	res.Nontrivial = true
	var hs []string
	for _, c := range d.Clients {
		if c.Plan.Hostile {
			hs = append(hs, fmt.Sprintf("%q", clip(c.stream, 60)))
		}
	}
	res.Sample = fmt.Sprintf("offenders send %s; %d witness clients", strings.Join(hs, " and "), len(d.Clients)-len(hs))
}

// ---- C17: exactly the supported, well-formed, size-limited requests are served ----

func init() {
	register(&Profile{Name: "C17", Prop: "C17", Gen: genC17, Check: checkC17})
}

var unsupportedExtra = []string{"foo", "getx", "ge", "flushall", "keys", "scan", "multi", "exec", "subscribe", "info", "cluster", "select", "echo", "hello", "object", "rename"}

func genC17(g *Gen) {
	p := g.Plan
	p.Topos = []Topology{g.StdTopology(3, 0, false)}
	p.Proxy.DisableSlave = true
	L := []int{64, 200, 4096, 6 << 20}[g.R.Intn(4)]
	p.Proxy.MsgMax = L
	p.Proxy.BufCap = []int{64, 257, 65536}[g.R.Intn(3)]
	if L > 1<<20 {
		// rcproxy re-parses the buffered request on every read: MiB-sized requests with a 64-byte read buffer are
		// quadratic and only an artefact of the harness knob (the shipped read buffer is 64 KiB)
		p.Proxy.BufCap = 65536
	}
	g.cleanKernel()
	if g.R.Pct(50) {
		p.Sched.ChunkPct = 0 // whole pipelines in one segment
	}
	doc := LoadDocCommands()
	sup := doc.SingleKeyCmds()
	var unsup []string
	for k := range doc.No {
		if k == "auth" || k == "ping" || k == "quit" {
			continue // answered by the proxy itself, as the statement says
		}
		unsup = append(unsup, k)
	}
	sortStrings(unsup)
	unsup = append(unsup, unsupportedExtra...)
	nc := g.R.Range(1, 2)
	for ci := 0; ci < nc; ci++ {
		cp := ClientPlan{Addr: clientAddr(ci), Mode: g.R.Pick([]string{"pipeline", "closed", "pipeline"}), CloseAfterSent: -1, CloseAfterReplies: -1, StartStep: g.R.Intn(10)}
		n := g.R.Range(1, 25)
		for ri := 0; ri < n; ri++ {
			tok := Tok(ci, ri)
			cp.Reqs = append(cp.Reqs, g.c17req(tok, L, sup, unsup, p.Seed+uint64(ci*977+ri)))
		}
		p.Clients = append(p.Clients, cp)
	}
}

func sortStrings(s []string) {
	for i := 1; i < len(s); i++ {
		for j := i; j > 0 && s[j] < s[j-1]; j-- {
			s[j], s[j-1] = s[j-1], s[j]
		}
	}
}

// padTo builds a value so that the whole encoded request has exactly the wanted size (if reachable).
func encodeSized(args []string, padIdx int, want int) []byte {
	raw := EncodeCommandS(args...)
	for iter := 0; iter < 4 && len(raw) != want; iter++ {
		diff := want - len(raw)
		if diff < 0 {
			if -diff > len(args[padIdx]) {
				break
			}
			args[padIdx] = args[padIdx][:len(args[padIdx])+diff]
		} else {
			args[padIdx] += strings.Repeat("p", diff)
		}
		raw = EncodeCommandS(args...)
	}
	return raw
}

func (g *Gen) c17req(tok string, L int, sup, unsup []string, rr uint64) ReqPlan {
	key := Key(tok, 0, -1, "")
	switch g.R.Intn(10) {
	case 0: // unsupported or unknown name
		name := g.R.Pick(unsup)
		args := []string{g.CaseMix(name)}
		for i := g.R.Intn(3); i > 0; i-- {
			args = append(args, key)
		}
		rq := g.Reject(tok, RUnknownCmd, args...)
		if len(rq.Raw) > L {
			rq.Expect = []byte("-")
		}
		return rq
	case 1, 2: // arity
		cmd := sup[int(rr%uint64(len(sup)))]
		ar := RedisArity[cmd]
		min := MinArgs(cmd)
		cnt := g.R.Range(0, min+2) // number of arguments after the key
		args := []string{g.CaseMix(cmd), key}
		for i := 0; i < cnt; i++ {
			args = append(args, "1")
		}
		noKey := g.R.Pct(15)
		if noKey {
			args = args[:1]
			cnt = -1
		}
		var rq ReqPlan
		switch {
		case len(EncodeCommandS(args...)) > L:
			rq = g.Reject(tok, "-", args...)
		case noKey:
			rq = g.Reject(tok, RWrongArgs, args...)
		case ar > 0 && cnt != min:
			rq = g.Reject(tok, RWrongArgs, args...)
		case ar > 0 && cnt == min:
			rq = ReqPlan{Raw: EncodeCommandS(args...), Class: "single", Cmd: cmd, Keys: []string{key}, Tok: tok}
		case ar < 0 && cnt >= min:
			if cnt > min {
				// more than Redis' minimum: served by Redis, but whether rcproxy's table allows it is not part of the statement
				rq = ReqPlan{Raw: EncodeCommandS(args...), Class: "either", Cmd: cmd, Keys: []string{key}, Tok: tok}
			} else {
				rq = ReqPlan{Raw: EncodeCommandS(args...), Class: "single", Cmd: cmd, Keys: []string{key}, Tok: tok}
			}
		default: // variadic, below Redis' minimum but with a key: unspecified
			rq = ReqPlan{Raw: EncodeCommandS(args...), Class: "either", Cmd: cmd, Keys: []string{key}, Tok: tok}
		}
		return rq
	case 3, 4: // request size around the limit
		cmd := g.R.Pick([]string{"set", "append", "getset", "setnx"})
		want := L + []int{-1, 0, 1, 1, 0, -1, 17, -40}[g.R.Intn(8)]
		if L > 1<<20 {
			want = L + []int{-1, 0, 1}[g.R.Intn(3)]
			if !g.R.Pct(8) {
				want = g.R.Range(30, 5000)
			}
		}
		args := []string{cmd, key, "v"}
		raw := encodeSized(args, 2, want)
		if len(raw) > L {
			return ReqPlan{Raw: raw, Class: "reject", Cmd: cmd, Tok: tok, Expect: []byte(RReqTooLarge)}
		}
		return ReqPlan{Raw: raw, Class: "single", Cmd: cmd, Keys: []string{key}, Tok: tok}
	case 5: // reply size around the limit
		want := L + []int{-1, 0, 1, 30}[g.R.Intn(4)]
		if L > 1<<20 && !g.R.Pct(8) {
			want = g.R.Range(10, 3000)
		}
		// bulk reply "$<n>\r\n<body>\r\n": choose body length so that the whole reply has the wanted size
		body := want - 5 - len(fmt.Sprint(want))
		for adj := 0; adj < 3; adj++ {
			if tot := len(fmt.Sprint(body)) + 5 + body; tot != want {
				body += want - tot
			}
		}
		if body < 8 {
			body = 8
		}
		k := Key(tok, 0, -1, fmt.Sprintf("~S5~L%d", body))
		rq := g.Single(tok, "get", k)
		if len(rq.Raw) > L {
			return g.Reject(tok, "-", "get", k)
		}
		return rq
	case 6: // split commands
		rq := g.randomSplit(tok, 4, 0)
		if len(rq.Raw) > L {
			rq.Class, rq.Expect = "reject", []byte(RReqTooLarge)
		}
		return rq
	case 7:
		rq := g.randomLocal(tok, "")
		if len(rq.Raw) > L {
			rq.Expect = []byte("-")
		}
		return rq
	default:
		cmd := sup[int(rr%uint64(len(sup)))]
		rq := g.fullSingle(tok, cmd, -1, "", 40)
		if len(rq.Raw) > L {
			rq.Class, rq.Expect = "reject", []byte("-")
		}
		return rq
	}
}

func checkC17(d *Driver, res *Result) {
	d.StdReplyCheck("C17", Relax{})
	rejected, nearLimit := 0, 0
	for _, c := range d.Clients {
		for i := range c.Plan.Reqs {
			rq := &c.Plan.Reqs[i]
			if n := len(rq.Raw) - d.P.Proxy.MsgMax; n >= -1 && n <= 1 {
				nearLimit++
			}
			if rq.Class != "reject" {
				continue
			}
			rejected++
			if recs := d.recsFor(rq.Tok); len(recs) > 0 {
				d.violate("C17", "rejected-request-forwarded", map[string]string{"cmd": rq.Cmd}, "client %d request %d (%q) must be rejected but %s received %q", c.Idx, i, clip(rq.Raw, 60), recs[0].Node, clip(recs[0].Raw, 60))
				return
			}
		}
	}
	d.Counters["c17_rejected"] = rejected
	d.Counters["c17_near_limit"] = nearLimit
	res.Nontrivial = rejected > 0
	res.Sample = fmt.Sprintf("limit %d bytes, %d clients, %d requests (%d to be rejected, %d within 1 byte of the limit)", d.P.Proxy.MsgMax, len(d.Clients), totalReqs(d), rejected, nearLimit)
}
