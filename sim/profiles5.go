package simrun

import (
	"fmt"
	"strings"
)

// ---- C15: losing a backend never leaves a client waiting forever ----

func init() {
	register(&Profile{Name: "C15", Prop: "C15", Gen: genC15, Check: checkC15})
}

func (g *Gen) c15req(tok string, kind int) ReqPlan {
	switch kind {
	case 0:
		return g.randomSingle(tok, -1)
	default:
		var keys, vals []string
		for i := 0; i <= kind; i++ {
			keys = append(keys, Key(tok, i, g.R.Intn(16384), ""))
		}
		cmd := g.R.Pick([]string{"mget", "del", "mset"})
		if cmd == "mset" {
			for i := range keys {
				vals = append(vals, fmt.Sprintf("v%d", i))
			}
		}
		return g.Split(tok, cmd, keys, vals)
	}
}

func genC15(g *Gen) {
	p := g.Plan
	p.Faulty = true
	base := g.StdTopology(g.R.Range(3, 4), g.R.Range(0, 1), false)
	p.Topos = []Topology{base}
	p.Proxy.ServerConns = g.R.Range(1, 2)
	p.Proxy.DisableSlave = g.R.Pct(50)
	p.Proxy.BufCap = 65536
	if g.R.Pct(50) {
		p.Proxy.TimeoutMs = g.R.Range(100, 600)
	}
	g.cleanKernel()
	p.Sched.SettleS = p.Proxy.TimeoutMs/1000 + 10
	phases := []string{"written", "consumed", "partial"}
	nFaults := 1
	npipe := g.R.Range(1, 12)
	nc := g.R.Range(1, 3)
	var enumPhase, enumPos, enumKind = -1, 0, 0
	if n, ok := variantNum(p.Variant, "enum:"); ok {
		// fault phase x affected pipeline position x request kind, pipelines up to 6
		enumPhase = n % 3
		n /= 3
		npipe = 1 + n%6
		n /= 6
		enumPos = n % npipe
		n /= 6
		enumKind = n % 3
		nc = 1
	} else if p.Variant == "multi" {
		nFaults = g.R.Range(2, 3)
	}
	for ci := 0; ci < nc; ci++ {
		cp := ClientPlan{Addr: clientAddr(ci), Mode: g.R.Pick([]string{"pipeline", "pipeline", "closed"}), CloseAfterSent: -1, CloseAfterReplies: -1, StartStep: g.R.Intn(8)}
		n := npipe
		if ci > 0 {
			n = g.R.Range(1, 12)
		}
		for ri := 0; ri < n; ri++ {
			kind := g.R.Intn(3)
			if enumPhase >= 0 && ri == enumPos {
				kind = enumKind
			}
			cp.Reqs = append(cp.Reqs, g.c15req(Tok(ci, ri), kind))
		}
		p.Clients = append(p.Clients, cp)
	}
	victim := func() string {
		if enumPhase >= 0 {
			return Tok(0, enumPos)
		}
		ci := g.R.Intn(nc)
		return Tok(ci, g.R.Intn(len(p.Clients[ci].Reqs)))
	}
	faultKind := g.R.Intn(10)
	if enumPhase >= 0 {
		faultKind = 0
	}
	for f := 0; f < nFaults; f++ {
		tok := victim()
		ph := g.R.Pick(phases)
		if enumPhase >= 0 {
			ph = phases[enumPhase]
		}
		switch {
		case faultKind < 5: // connection loss
			p.Events = append(p.Events, Event{Kind: "kill-conn", When: When{Token: tok, Phase: ph}, Rst: g.R.Pct(50)})
		case faultKind < 7 && p.Variant != "noarm": // the peer's reset meets the proxy's next write on that connection (no hang-up event first)
			if g.R.Pct(50) {
				p.Events = append(p.Events, Event{Kind: "rst-at-write", When: When{Token: tok, Phase: "written"}})
			} else {
				p.Events = append(p.Events, Event{Kind: "rst-at-write", When: When{Step: g.R.Range(2, 40)}, Node: base.Nodes[g.R.Intn(len(base.Nodes))].Addr})
			}
		case faultKind < 8: // whole node goes away, comes back later
			node := base.Nodes[g.R.Intn(len(base.Nodes))].Addr
			p.Events = append(p.Events, Event{Kind: "node-down", When: When{Token: tok, Phase: ph}, Node: node})
			p.Events = append(p.Events, Event{Kind: "node-up", When: When{AfterMs: g.R.Range(200, 3000)}, Node: node})
		default: // redirect to a node the proxy does not know: a slot range moves to a brand-new node, the old views persist
			t2 := cloneTopo(base)
			nn := NodeDesc{ID: fmt.Sprintf("%040x", 0xc000), Addr: "10.0.99.1:7000", Master: true}
			src := &t2.Nodes[0]
			nn.Slots = src.Slots
			src.Slots = nil
			t2.Nodes = append(t2.Nodes, nn)
			p.Topos = append(p.Topos, t2)
			for _, nd := range base.Nodes {
				p.Events = append(p.Events, Event{Kind: "set-view", When: When{Step: 1}, Node: nd.Addr, Topo: 0})
			}
			p.Events = append(p.Events, Event{Kind: "set-view", When: When{Step: 1}, Node: nn.Addr, Topo: 0})
			p.Events = append(p.Events, Event{Kind: "set-topo", When: When{Step: 1 + g.R.Intn(6)}, Topo: 1})
			f = nFaults
		}
	}
	// a client that starts after the last fault: it must be served over a new connection
	cp := ClientPlan{Addr: clientAddr(nc), Mode: "closed", CloseAfterSent: -1, CloseAfterReplies: -1, StartAfterEvents: true}
	for ri := 0; ri < 4; ri++ {
		cp.Reqs = append(cp.Reqs, g.c15req(Tok(nc, ri), g.R.Intn(2)))
	}
	p.Clients = append(p.Clients, cp)
	p.Sched.MaxSteps = 1500
}

func cloneTopo(t Topology) Topology {
	var c Topology
	c.Shuffle = t.Shuffle
	for _, n := range t.Nodes {
		m := n
		m.Slots = append([][2]int(nil), n.Slots...)
		m.Flags = append([]string(nil), n.Flags...)
		c.Nodes = append(c.Nodes, m)
	}
	return c
}

func checkC15(d *Driver, res *Result) {
	// bounded liveness after the last fault (fair settle phase): every request has a reply (data or error) or its connection was
	// closed by the proxy. Data must still be right (shared oracle); proxy errors may stand in.
	rx := Relax{AllowProxyError: true, AllowMissingClosed: true}
	if len(d.P.Topos) > 1 {
		// redirect-to-unknown-node scenario: the affected slots are unreachable for the whole run, any error is fine
		rx.AllowAnyErrorForUnknown = true
	}
	d.StdReplyCheck("C15", rx)
	// "later requests for that node are served over a new connection": the last client only starts when every planned fault
	// has happened, the proxy has noticed every lost connection (closed its descriptor) and every node is reachable again; the
	// proxy may not turn its requests away (no ban, back-off or stale
	// connection state may outlive the outage). Not applicable when slots were handed to a node the proxy does not know.
	if len(d.P.Topos) == 1 && len(d.Clients) > 0 {
		lc := d.Clients[len(d.Clients)-1]
		allUp := true
		for _, n := range d.C.Nodes {
			allUp = allUp && n.Up
		}
		for _, e := range d.P.Events {
			if e.Kind == "rst-at-write" {
				allUp = false // an armed reset strikes at some later write, possibly one of this client's own: not "after the fault"
			}
		}
		if lc.Plan.StartAfterEvents && allUp && lc.CleanStart {
			for i, rp := range lc.Replies {
				if isProxyError(rp) && string(rp) != RTimeout {
					d.violate("C15", "not-served-after-recovery", map[string]string{"got": strings.TrimSpace(string(clip(rp, 40)))},
						"client %d started after the last fault with every node reachable; its request %d (%s) was answered %q instead of being served over a new connection",
						lc.Idx, i, lc.Plan.Reqs[i].Cmd, clip(rp, 60))
					break
				}
			}
		}
	}
	d.Counters["c15_rst_at_write_fired"] = d.K.Stats.RstAtWrite
	faults := d.Counters["backend_conn_killed"] + d.Counters["ev_set-topo"] + d.K.Stats.RstAtWrite
	res.Nontrivial = faults > 0
	d.Counters["c15_faults"] = faults
	var ev []string
	for _, e := range d.P.Events {
		if e.Kind != "set-view" {
			ev = append(ev, fmt.Sprintf("%s@%s/%s", e.Kind, e.When.Token, e.When.Phase))
		}
	}
	res.Sample = fmt.Sprintf("%d clients, %d requests, timeout %dms, faults: %s", len(d.Clients), totalReqs(d), d.P.Proxy.TimeoutMs, strings.Join(ev, " "))
}

// ---- C13: MOVED / ASK redirects are followed and terminate ----

func init() {
	register(&Profile{Name: "C13", Prop: "C13", Gen: genC13, Check: checkC13})
}

func genC13(g *Gen) {
	p := g.Plan
	m := g.R.Range(3, 5)
	base := g.StdTopology(m, 0, false)
	p.Topos = []Topology{base}
	p.Proxy.DisableSlave = true
	p.Proxy.ServerConns = g.R.Range(1, 2)
	p.Proxy.BufCap = 65536
	g.cleanKernel()
	p.Sched.SettleS = 6
	if p.Variant == "mixed" {
		p.Proxy.TimeoutMs = g.R.Range(100, 400)
		p.Sched.WRelease = 2
	}
	// the proxy's view goes stale: every node keeps reporting topology 0 for the whole run
	for _, nd := range base.Nodes {
		p.Events = append(p.Events, Event{Kind: "set-view", When: When{Step: 1}, Node: nd.Addr, Topo: 0})
	}
	mode := g.R.Pick([]string{"moved", "ask", "both"})
	if p.Variant == "moved" || p.Variant == "ask" {
		mode = p.Variant
	}
	var movedSlots, askSlots []int
	movedLo, movedHi := -1, -1
	if mode != "ask" {
		// MOVED: master 0 hands part of its slots to master 1 (both known to the proxy)
		t2 := cloneTopo(base)
		src, dst := &t2.Nodes[0], &t2.Nodes[1]
		r := src.Slots[0]
		mid := (r[0] + r[1]) / 2
		src.Slots[0] = [2]int{r[0], mid}
		dst.Slots = append(dst.Slots, [2]int{mid + 1, r[1]})
		p.Topos = append(p.Topos, t2)
		p.Events = append(p.Events, Event{Kind: "set-topo", When: When{Step: 1}, Topo: 1})
		for i := 0; i < 6; i++ {
			movedSlots = append(movedSlots, g.R.Range(mid+1, r[1]))
		}
		movedLo, movedHi = mid+1, r[1]
	}
	nc := g.R.Range(1, 2)
	var migKeys = map[int][]string{}
	for ci := 0; ci < nc; ci++ {
		cp := ClientPlan{Addr: clientAddr(ci), Mode: g.R.Pick([]string{"pipeline", "closed"}), CloseAfterSent: -1, CloseAfterReplies: -1, StartStep: 3 + g.R.Intn(6)}
		n := g.R.Range(2, 14)
		for ri := 0; ri < n; ri++ {
			tok := Tok(ci, ri)
			pickSlot := func() int {
				switch {
				case len(movedSlots) > 0 && g.R.Pct(40):
					return movedSlots[g.R.Intn(len(movedSlots))]
				case mode != "moved" && g.R.Pct(40):
					// a slot of master 2 that is being migrated to master 0
					r := base.Nodes[2].Slots[0]
					s := g.R.Range(r[0], r[0]+20)
					askSlots = append(askSlots, s)
					return s
				}
				return g.R.Intn(16384)
			}
			if movedLo >= 0 && p.Variant != "mixed" && g.R.Pct(8) {
				// a wide request: 17-40 fragments, every one of them redirected once (each key in a slot of its own that moved)
				var keys, vals []string
				cmd := g.R.Pick([]string{"mget", "del", "mset"})
				seen := map[int]bool{}
				for i, nk := 0, g.R.Range(17, 40); i < nk; i++ {
					sl := g.R.Range(movedLo, movedHi)
					if seen[sl] {
						continue
					}
					seen[sl] = true
					keys = append(keys, Key(tok, i, sl, ""))
					vals = append(vals, "v")
				}
				if cmd != "mset" {
					vals = nil
				}
				cp.Reqs = append(cp.Reqs, g.Split(tok, cmd, keys, vals))
			} else if g.R.Pct(30) || (p.Variant == "mixed" && g.R.Pct(40)) {
				var keys, vals []string
				cmd := g.R.Pick([]string{"mget", "del", "mset"})
				nk := g.R.Range(2, 4)
				for i := 0; i < nk; i++ {
					sfx := ""
					if p.Variant == "mixed" && g.R.Pct(35) {
						// a sibling fragment is answered with an error (or stalls) while another one is being redirected
						sfx = g.R.Pick([]string{"~E1", "~E3", "~T", "~D900"})
					}
					keys = append(keys, Key(tok, i, pickSlot(), sfx))
				}
				if cmd == "mset" {
					for range keys {
						vals = append(vals, "v")
					}
				}
				cp.Reqs = append(cp.Reqs, g.Split(tok, cmd, keys, vals))
			} else {
				s := pickSlot()
				cmd := g.R.Pick([]string{"get", "set", "incr", "strlen", "append"})
				cp.Reqs = append(cp.Reqs, g.Single(tok, cmd, Key(tok, 0, s, ""), argsFor(g, cmd, "v"+tok)...))
			}
			for _, k := range cp.Reqs[len(cp.Reqs)-1].Keys {
				s := RefSlot([]byte(k))
				migKeys[s] = append(migKeys[s], k)
			}
		}
		p.Clients = append(p.Clients, cp)
	}
	if p.Variant == "connloss" {
		// the node a redirect points to resets its connection just when the redirecting node has produced the redirect: the
		// proxy learns about both in the same poll, in either order. Whatever happens to the request, redirect handling must end
		// (a reply, an error, or a closed connection).
		p.Faulty = true
		for k := g.R.Range(1, 3); k > 0; k-- {
			ci := g.R.Intn(len(p.Clients))
			ri := g.R.Intn(len(p.Clients[ci].Reqs))
			p.Events = append(p.Events, Event{Kind: "kill-conn", When: When{Token: Tok(ci, ri), Phase: "consumed"},
				Node: base.Nodes[g.R.Intn(2)].Addr, Rst: g.R.Pct(70)})
		}
	}
	if mode != "moved" {
		// slots being migrated master2 -> master0: some keys already moved (present at the target), some still at the source
		seen := map[int]bool{}
		for _, s := range askSlots {
			if seen[s] {
				continue
			}
			seen[s] = true
			var moved []string
			for _, k := range migKeys[s] {
				if g.R.Pct(50) {
					p.Prepop = append(p.Prepop, [2]string{k, "pre-" + k})
					if g.R.Pct(50) {
						moved = append(moved, k)
					}
				}
			}
			p.Events = append(p.Events, Event{Kind: "migrate", When: When{Step: 2}, Slot: s, To: base.Nodes[0].Addr, Data: moved})
		}
	}
}

func checkC13(d *Driver, res *Result) {
	// in the "mixed" variant stalls, timeouts and backend errors are injected next to the redirects: a proxy error may stand in
	d.StdReplyCheck("C13", Relax{AllowProxyError: d.P.Variant == "mixed" || d.P.Variant == "connloss", AllowMissingClosed: d.P.Variant == "connloss"})
	// termination: count re-sends per request token
	perTok := map[string]int{}
	moved, ask := 0, 0
	for _, r := range d.C.Log {
		if r.Kind != "redirect" {
			continue
		}
		if strings.HasPrefix(string(r.Reply), "-ASK") {
			ask++
		} else {
			moved++
		}
		for _, t := range r.Tokens {
			perTok[t]++
		}
	}
	for t, n := range perTok {
		if n > 16 {
			d.violate("C13", "redirect-loop", map[string]string{}, "the fragment carrying %s was redirected %d times", t, n)
			break
		}
	}
	d.Counters["c13_moved"] = moved
	d.Counters["c13_ask"] = ask
	res.Nontrivial = moved+ask > 0
	res.Sample = fmt.Sprintf("%d clients, %d requests, %d MOVED and %d ASK redirects answered by the nodes", len(d.Clients), totalReqs(d), moved, ask)
}

// ---- C03: no reply produced for a different request is ever delivered ----

func init() {
	register(&Profile{Name: "C03", Prop: "C03", Gen: genC03, Check: checkC03})
}

func genC03(g *Gen) {
	p := g.Plan
	p.Faulty = true
	m := g.R.Range(3, 5)
	base := g.StdTopology(m, g.R.Range(0, 1), g.R.Pct(40))
	// unowned slot ranges: one master loses part of its slots (nobody claims them)
	if g.R.Pct(60) {
		n := &base.Nodes[g.R.Intn(m)]
		if len(n.Slots) > 0 {
			r := n.Slots[0]
			if r[1]-r[0] > 100 {
				n.Slots[0] = [2]int{r[0], (r[0] + r[1]) / 2}
			}
		}
	}
	p.Topos = []Topology{base}
	g.swarmProxy()
	g.swarmKernel(true)
	if g.R.Pct(35) {
		p.Proxy.TimeoutMs = g.R.Range(50, 500)
	}
	p.Sched.SettleS = 6
	nc := g.R.Range(2, 6)
	if g.R.Pct(30) {
		// a node that refuses connections from the start
		node := base.Nodes[g.R.Intn(len(base.Nodes))].Addr
		p.Events = append(p.Events, Event{Kind: "node-down", When: When{Step: 1}, Node: node})
		if g.R.Pct(50) {
			p.Events = append(p.Events, Event{Kind: "node-up", When: When{AfterMs: g.R.Range(100, 2000)}, Node: node})
		}
	}
	for ci := 0; ci < nc; ci++ {
		cp := ClientPlan{Addr: clientAddr(ci), Mode: g.R.Pick([]string{"pipeline", "pipeline", "closed"}), CloseAfterSent: -1, CloseAfterReplies: -1,
			StartStep: g.R.Intn(40), Slow: g.R.Pct(10)}
		if ci > 0 && g.R.Pct(30) {
			cp.StartAfterClient = g.R.Range(1, ci) // object / fd reuse right after another client went away
			cp.StartStep = 0
		}
		n := g.R.Range(1, 25)
		for ri := 0; ri < n; ri++ {
			tok := Tok(ci, ri)
			switch {
			case g.R.Pct(35):
				// multi-key request likely to straddle owned/unowned or reachable/unreachable slots
				cp.Reqs = append(cp.Reqs, g.randomSplit(tok, 6, 10))
			case g.R.Pct(10):
				cp.Reqs = append(cp.Reqs, g.randomLocal(tok, p.Proxy.Password))
			case g.R.Pct(12) && p.Proxy.TimeoutMs > 0:
				cp.Reqs = append(cp.Reqs, g.Single(tok, "get", Key(tok, 0, -1, g.R.Pick([]string{"~T", fmt.Sprintf("~D%d", p.Proxy.TimeoutMs+400)}))))
			default:
				cp.Reqs = append(cp.Reqs, g.randomSingle(tok, -1))
			}
		}
		total := 0
		for _, r := range cp.Reqs {
			total += len(r.Raw)
		}
		if g.R.Pct(35) {
			// disconnect with requests in flight
			cp.CloseRst = g.R.Pct(50)
			if g.R.Pct(50) {
				cp.CloseAfterSent = g.R.Range(1, total)
			} else {
				cp.CloseAfterSent = total
				cp.CloseAfterReplies = g.R.Intn(n)
			}
		}
		p.Clients = append(p.Clients, cp)
	}
	if p.Variant == "swarm" {
		// everything at once: stale views with MOVED/ASK redirects and erroring / stalling fragments on top of the above
		t2 := cloneTopo(base)
		var ms []int
		for i, n := range t2.Nodes {
			if n.Master && len(n.Slots) > 0 {
				ms = append(ms, i)
			}
		}
		if len(ms) >= 2 {
			src, dst := &t2.Nodes[ms[0]], &t2.Nodes[ms[1]]
			r := src.Slots[0]
			if r[1]-r[0] > 10 {
				mid := (r[0] + r[1]) / 2
				src.Slots[0] = [2]int{r[0], mid}
				dst.Slots = append(dst.Slots, [2]int{mid + 1, r[1]})
				p.Topos = append(p.Topos, t2)
				for _, nd := range base.Nodes {
					p.Events = append(p.Events, Event{Kind: "set-view", When: When{Step: 1}, Node: nd.Addr, Topo: 0})
				}
				p.Events = append(p.Events, Event{Kind: "set-topo", When: When{Step: g.R.Range(1, 60)}, Topo: 1})
				if g.R.Pct(50) {
					rg := base.Nodes[ms[len(ms)-1]].Slots[0]
					p.Events = append(p.Events, Event{Kind: "migrate", When: When{Step: g.R.Range(1, 60)}, Slot: g.R.Range(rg[0], rg[1]), To: base.Nodes[ms[0]].Addr})
				}
			}
		}
		for ci := range p.Clients {
			for ri := range p.Clients[ci].Reqs {
				rq := &p.Clients[ci].Reqs[ri]
				if (rq.Class == "single" || rq.Class == "split") && g.R.Pct(20) {
					// re-key one key with an error / stall directive (the token stays, so attribution is unchanged)
					sfx := g.R.Pick([]string{"~E1", "~E4", "~E6", "~T", "~D700"})
					if p.Proxy.TimeoutMs == 0 && (sfx == "~T" || sfx == "~D700") {
						sfx = "~E2"
					}
					args, _, st, _ := ParseRedisQuery(rq.Raw)
					if st != QOk || len(args) < 2 {
						continue
					}
					a := make([][]byte, len(args))
					copy(a, args)
					old := string(a[1])
					for ai := 1; ai < len(a); ai++ {
						if string(a[ai]) == old { // duplicates of the key are re-keyed too
							a[ai] = []byte(old + sfx)
						}
					}
					rq.Raw = EncodeCommand(a...)
					for k := range rq.Keys {
						if rq.Keys[k] == old {
							rq.Keys[k] = old + sfx
						}
					}
				}
			}
		}
	}
	// backend connections killed and re-dialled mid-run
	for i := g.R.Intn(3); i > 0; i-- {
		ci := g.R.Intn(nc)
		tok := Tok(ci, g.R.Intn(len(p.Clients[ci].Reqs)))
		p.Events = append(p.Events, Event{Kind: "kill-conn", When: When{Token: tok, Phase: g.R.Pick([]string{"written", "consumed", "partial"})}, Rst: g.R.Pct(50)})
	}
	p.Sched.MaxSteps = 3000
}

func checkC03(d *Driver, res *Result) {
	// wrong data is a violation; missing replies, proxy errors and closed connections are other properties' business
	d.StdReplyCheck("C03", Relax{AllowProxyError: true, AllowMissing: true, AllowMissingClosed: true})
	unrouted := 0
	for _, c := range d.Clients {
		for _, r := range c.Replies {
			if string(r) == RUnknownSlot || strings.HasPrefix(string(r), "-ERR unknown proxy pool") {
				unrouted++
			}
		}
	}
	d.Counters["c03_unroutable_replies"] = unrouted
	d.Counters["c03_client_disconnects"] = d.Counters["client_self_close"]
	res.Nontrivial = unrouted+d.Counters["client_self_close"]+d.Counters["backend_conn_killed"] > 0
	res.Sample = fmt.Sprintf("%d clients, %d requests, %d unroutable, %d client disconnects mid-flight, %d backend connections killed, timeout %dms",
		len(d.Clients), totalReqs(d), unrouted, d.Counters["client_self_close"], d.Counters["backend_conn_killed"], d.P.Proxy.TimeoutMs)
}
