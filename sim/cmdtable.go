package simrun

// What Redis (not rcproxy) says about the commands: arity from the redis-server command table (6.x), write/read
// classification (readCmds in cluster.go), and the documented supported set parsed from /repo/docs/command.md.

import (
	"os"
	"regexp"
	"sort"
	"strings"
)

// redis arity: positive = exact number of words incl. the name, negative = at least that many
var RedisArity = map[string]int{
	"exists": -2, "ttl": 2, "pttl": 2, "type": 2, "dump": 2, "bitcount": -2, "get": 2, "getbit": 3, "getrange": 4, "mget": -2,
	"strlen": 2, "hexists": 3, "hget": 3, "hgetall": 2, "hkeys": 2, "hlen": 2, "hmget": -4, "hscan": -3, "hvals": 2, "lindex": 3,
	"llen": 2, "lrange": 4, "srandmember": -2, "sscan": -3, "sdiff": -2, "sinter": -2, "scard": 2, "sismember": 3, "smembers": 2,
	"zcard": 2, "zcount": 4, "zlexcount": 4, "zrange": -4, "zrangebylex": -4, "zrangebyscore": -4, "zrank": 3, "zrevrange": -4,
	"zrevrangebyscore": -4, "zrevrank": 3, "zscore": 3, "zscan": -3, "del": -2, "expire": 3, "expireat": 3, "pexpire": 3,
	"pexpireat": 3, "persist": 2, "sort": -2, "append": 3, "decr": 2, "decrby": 3, "getset": 3, "incr": 2, "incrby": 3,
	"incrbyfloat": 3, "mset": -3, "psetex": 4, "restore": -4, "set": -3, "setbit": 4, "setex": 4, "setnx": 3, "setrange": 4,
	"sunion": -2, "hdel": -3, "hincrby": 4, "hincrbyfloat": 4, "hmset": -4, "hset": -4, "hsetnx": 4, "linsert": 5, "lpop": -2,
	"lpush": -3, "lpushx": -3, "lrem": 4, "lset": 4, "ltrim": 4, "rpop": -2, "rpoplpush": 3, "rpush": -3, "rpushx": -3,
	"pfadd": -2, "pfcount": -2, "pfmerge": -2, "sadd": -3, "sdiffstore": -3, "sinterstore": -3, "smove": 4, "spop": -2,
	"srem": -3, "sunionstore": -3, "zadd": -4, "zincrby": 4, "zinterstore": -4, "zrem": -3, "zremrangebyrank": 4,
	"zremrangebylex": 4, "zremrangebyscore": 4, "zunionstore": -4, "eval": -3, "evalsha": -3,
	"ping": -1, "quit": -1, "auth": -2,
}

var docRow = regexp.MustCompile(`(?m)^\|\s*([A-Za-z]+)\s*\|\s*(Yes|No)\s*\|(.*)\|\s*$`)

type DocCmds struct {
	Yes map[string]bool
	No  map[string]bool
}

// LoadDocCommands parses the documented command table. A command with both a Yes and a No row (EXISTS: single key
// yes, multi-key no) counts as supported.
func LoadDocCommands() DocCmds {
	d := DocCmds{Yes: map[string]bool{}, No: map[string]bool{}}
	b, err := os.ReadFile("/repo/docs/command.md")
	if err != nil {
		panic("sim: cannot read /repo/docs/command.md: " + err.Error())
	}
	for _, m := range docRow.FindAllStringSubmatch(string(b), -1) {
		name := strings.ToLower(m[1])
		if m[2] == "Yes" {
			d.Yes[name] = true
		} else {
			d.No[name] = true
		}
	}
	for k := range d.Yes {
		delete(d.No, k)
	}
	return d
}

func (d DocCmds) Supported() []string {
	var s []string
	for k := range d.Yes {
		s = append(s, k)
	}
	sort.Strings(s)
	return s
}

// SingleKeyCmds: documented-supported commands that are forwarded whole by their first key (everything except the three
// split commands, the locally answered ones and the scripts, whose key is the 3rd argument).
func (d DocCmds) SingleKeyCmds() []string {
	var s []string
	for _, k := range d.Supported() {
		switch k {
		case "mget", "del", "mset", "ping", "quit", "auth", "eval", "evalsha":
			continue
		}
		if _, ok := RedisArity[k]; ok {
			s = append(s, k)
		}
	}
	return s
}

// MinArgs returns the number of arguments after the key that Redis requires at least.
func MinArgs(cmd string) int {
	a := RedisArity[cmd]
	if a < 0 {
		a = -a
	}
	return a - 2
}
